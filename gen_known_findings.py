#!/usr/bin/env python3
"""Writes /verif/known_findings.json. Run by hand when a finding is added or fixed (never at check time).
Commit hashes of fix: commits are resolved from /repo's history by subject prefix."""
import json, subprocess
LOG = subprocess.check_output(["git", "-C", "/repo", "log", "--format=%H %s"], text=True).splitlines()
def sha(prefix):
    for l in LOG:
        h, s = l.split(' ', 1)
        if s.startswith(prefix):
            return h
    raise SystemExit("no commit with subject prefix: " + prefix)

FIXED = [
 ("KF-C16-1", "C16", "C16-search-paging-skips-position", "fix: remote stream_search returns the proper next_search_idx",
  "stream_search returned next_search_idx one position too far when a page was full, so paging with the continuation position never examined one stream position per page (4-message stream, page size 2 from position 1: match at position 3 never reported)",
  "replays/examples/C16-search-paging.json"),
 ("KF-C16-2", "C16", "C16-search-in-unfiltered-stream-empty", "fix: remote stream_search works for streams without filters",
  "stream_search on a stream without active filters iterated the (empty) filtered list and never returned a match", "replays/examples/C16-search-unfiltered.json"),
 ("KF-C16-3", "C16", "C16-index-lookup-in-unfiltered-stream", "fix: remote stream_binary_search by index works for streams without filters",
  "stream_binary_search index=N on a stream without active filters searched the empty filtered list and always returned position 0", "replays/examples/C16-lookup-unfiltered.json"),
 ("KF-C16-4", "C16", "C16-query-ends-before-parsing-finished", "fix: remote queries are done only once the parser has finished",
  "a query sent while the file was still being parsed was declared finished in the first server loop iteration without new messages (e.g. before the first batch arrived): unfiltered query with window [1,34) on a 3-message file received 0 of 2 messages", "replays/examples/C16-query-ends-before-parsed.json"),
 ("KF-C16-5", "C16", "C16-time-lookup-ties", "fix: remote time lookup returns the first of several msgs",
  "stream_binary_search time_ms=T used binary_search_by, which returns any of several messages with the same calculated time: in an 88-message stream whose positions 51..87 share one time the lookup returned 87 where the first message not before T is at 51", "replays/examples/C16-time-lookup-ties.json"),
 ("KF-C16-6", "C16", "C16-index-lookup-sorted-filtered", "fix: remote index lookup in sorted, filtered streams",
  "stream_binary_search index=N on a filtered stream of a file opened with sort:true searched the filtered messages by calculated time; with two messages of equal calculated time (a duplicated message) the lookup of message 0 returned position 1", "replays/examples/C16-index-lookup-sorted.json"),
 ("KF-C15-1", "C15", "C15-stream-search-without-params", "fix: remote stream_search without search params",
  "'stream_search <id>' for an existing stream without a JSON body panicked (params.split_once(' ').unwrap()) and killed the connection thread", None),
 ("KF-C15-2", "C15", "C15-one-pass-stream-after-drain", "fix: remote rejects new streams in one_pass_streams mode",
  "with collect:'one_pass_streams', a stream/query created after messages had been drained (open, resume, then stream) made process_file_context underflow 'processed_len - drained' (panic, connection thread dies)",
  "replays/examples/C15-one-pass-stream-after-drain.json"),
 ("KF-C15-3", "C15", "C15-one-pass-change-window-after-drain", "fix: remote rejects window changes and searches for one_pass",
  "stream_change_window on a one_pass stream after its messages were drained accessed drained messages ('msg_idx - drained' underflow, panic, connection thread dies)",
  "replays/examples/C15-one-pass-change-window-after-drain.json"),
 ("KF-C15-4", "C15", "C15-search-huge-max-results", "fix: remote stream_search with a huge max_results",
  "'stream_search <id> {\"max_results\":9223372036854775807}' used the client's max_results as Vec capacity: 'capacity overflow' panic, the connection thread died without a reply", "replays/examples/C15-search-huge-max-results.json"),
 ("KF-C15-5", "C15", "C15-fs-corrupt-archive", "fix: remote fs cmds on a corrupt archive",
  "'fs {\"cmd\":\"stat\"|\"readDirectory\",\"path\":\"<existing but corrupt>.zip!/x\"}' panicked on an unwrap of the archive listing; the connection thread died without a reply", "replays/examples/C15-fs-corrupt-zip.json"),
 ("KF-C15-6", "C15", "C15-binary-search-huge-time", "fix: remote stream_binary_search with a huge time_ms",
  "'stream_binary_search <id> time_ms=18446744073709551615' overflowed '1000 * time_ms' (attempt to multiply with overflow in builds with overflow checks); the connection thread died without a reply", None),
 ("KF-C03-1", "C03", "C03-flst-announced-size-allocation", "fix: file transfer plugin limits the upfront allocation",
  "a file-transfer announcement (FLST) with corrupt package count x package size made the plugin panic with 'attempt to multiply with overflow' / 'capacity overflow', request gigabytes for a 128-byte input, or abort the process on a failed terabyte allocation", None),
 ("KF-C03-2", "C03", "C03-verbose-ctrl-response-short-first-arg", "fix: don't panic on ctrl response msgs",
  "a control response with the verbose bit set whose first argument is shorter than 4 bytes panicked in lifecycle detection (sw-version sniffing) and in the anonymize plugin (Option::unwrap on get(0..4))", None),
 ("KF-C03-3", "C03", "C03-logcat-threadtime-before-year-start", "fix: logcat threadtime before the start of the year",
  "a logcat threadtime line dated before the start of the reference year (e.g. '12-31 23:59:59.999 ...' in a file modified early in the year) overflowed 'recorded_start_time_us + timestamp_us' (negative duration cast to u64)", None),
 ("KF-C03-4", "C03", "C03-asc-offset-add-overflow", "fix: asc timestamp with offset from the reference time",
  "CAN-ASC input read with a timestamp reference time: 'timestamp_offset_dms + timestamp/100' overflowed the u32 timestamp ('attempt to add with overflow') for a date line far after the reference time followed by a frame at 96577.668987 s", "replays/examples/C03-asc-offset-add-overflow.json"),
 ("KF-C03-5", "C03", "C03-logcat-monotonic-timestamp-overflow", "fix: logcat monotonic timestamps that are too large",
  "a logcat monotonic line whose seconds have 14+ digits ('99999999999999990.1000 1 1 I : ') overflowed 'secs * 1_000_000' (attempt to multiply with overflow); slightly smaller values overflowed 'recorded_start_time_us + timestamp_us'", "replays/examples/C03-logcat-monotonic-mul-overflow.json"),
 ("KF-C03-6", "C03", "C03-asc-timestamp-mul-overflow", "fix: asc timestamps that are too large",
  "a CAN-ASC frame line with a 14-digit seconds value ('18446744073710.654773 CANFD 89 Rx ErrorFrame ...') overflowed 'secs * 1_000_000' in parse_signed_time_str (attempt to multiply with overflow)", "replays/examples/C03-asc-timestamp-mul-overflow.json"),
 ("KF-C03-7", "C03", "C03-hex_to_bytes-non-ascii", "fix: hex_to_bytes doesn't panic on non ascii chars",
  "a CAN-ASC frame line whose data field contains multi-byte UTF-8 characters made utils::hex_to_bytes slice a str inside a character ('end byte index 2 is not a char boundary')", "replays/examples/C03-hex_to_bytes-non-ascii.json"),
 ("KF-C03-8", "C03", "C03-logcat-long-tag", "fix: logcat apid info msg for a very long tag",
  "a logcat line whose tag has about 65 500 or more bytes overflowed 'len_wo_payload + payload.len() as u16' of the generated GET_LOG_INFO message (attempt to add with overflow)", "replays/examples/C03-logcat-long-tag.json"),
 ("KF-C03-9", "C03", "C03-genlog-long-tag", "fix: genlog apid info msg for a very long tag",
  "a generic-log line '[2024-02-29 23:59:59.999] [INF] [<tag of ~65 500 bytes>] ...' overflowed the u16 length of the generated GET_LOG_INFO message (attempt to add with overflow)", "replays/examples/C03-genlog-long-tag.json"),
 ("KF-C03-10", "C03", "C03-asc-long-bus-name", "fix: asc BusMapping with a very long name",
  "a CAN-ASC comment '// BusMapping: CAN 1 = <name of ~65 500 bytes>' overflowed the u16 length of the generated GET_LOG_INFO message (attempt to add with overflow)", "replays/examples/C03-asc-long-bus-name.json"),
 ("KF-C03-11", "C03", "C03-asc-data-non-ascii", "fix: asc data with non ascii chars doesn't panic",
  "a CAN-ASC frame line whose data field contains multi-byte UTF-8 characters ('... Rx   d 8 \u20acA  \u00e90...') was sliced at a byte offset inside a character (end byte index is not a char boundary), CAN and CANFD branch", "replays/examples/C03-asc-data-non-ascii.json"),
 ("KF-C03-12", "C03", "C03-short-non-ascii-tags", "fix: apid abbreviation for short non ascii tags",
  "two different short (<= 4 bytes) non-ASCII tags in one logcat/generic-log file ('\u00e9\u00e9' after another non-ASCII tag that already took the fallback apid NoAs) made utils::get_4digit_str slice inside a character (end byte index 3 is not a char boundary); the panic happens while the global tag map is write-locked, so every later file of the process fails too", "replays/examples/C03-short-non-ascii-tags.json"),
 ("KF-C03-13", "C03", "C03-asc-i64-sum-overflow", "fix: asc timestamp close to the i64 limit",
  "a CAN-ASC timestamp of 9223372036854.999999 s overflowed 'timestamp_secs_us + timestamp_fraction_us' (i64) in parse_signed_time_str", "replays/examples/C03-asc-i64-sum-overflow.json"),
 ("KF-C03-14", "C03", "C03-logcat-unicode-digit", "fix: logcat threadtime with non ascii digits",
  "a logcat threadtime line whose 18-byte time stamp contains a non-ASCII digit (the regex \\d is Unicode aware, e.g. '01-1\u06f3 10:11:12.11  100  200 I MyTag   : x') was sliced at fixed byte offsets inside a character in parse_threadtime_str/parse_mmdd_str", "replays/examples/C03-logcat-unicode-digit.json"),
 ("KF-C03-15", "C03", "C03-asc-64k-data", "fix: asc frame with a data length close to 64k",
  "a CAN-ASC frame line announcing and carrying 65 500+ data bytes overflowed the u16 length of the generated message ('len_wo_payload + payload.len() as u16')", "replays/examples/C03-asc-64k-data.json"),
 ("KF-C09-1", "C09", "C09-sequential-chain-recursion", "fix: SequentialMultiIterator doesn't recurse",
  "SequentialMultiIterator::next called itself once per empty source: chaining sources with a run of 5 000+ (debug) / 50 000+ empty sources in a row overflowed the stack (process abort) instead of yielding the concatenation", "replays/examples/C09-many-empty-sources.json"),
 ("KF-C09-2", "C09", "C09-index-overflow-at-u32-max", "fix: multi iterators don't overflow after a msg with the max index",
  "with a start index such that the last message is numbered u32::MAX (e.g. one message, start index u32::MAX) both multi iterators panicked with 'attempt to add with overflow' at 'self.index += 1' before returning that message", "replays/examples/C09-last-index-u32-max.json"),
 ("KF-C10-1", "C10", "C10-lifecycle-start-u64-max", "fix: buffer_sort_messages doesn't overflow for a lifecycle with start time",
  "time sorting with a lifecycle table that contains an entry with start_time u64::MAX (the value Lifecycle::merge writes into a merged-away lifecycle) panicked in 'lifecycle start + timestamp' (attempt to add with overflow): the output was not a permutation of the input", "replays/examples/C10-lifecycle-start-u64-max.json"),
 ("KF-C10-2", "C10", "C10-min-delay-near-u64-max", "fix: buffer_sort_messages doesn't overflow for a huge min_buffer_delay_us",
  "buffer_sort_messages with a minimum buffering delay within 1000 s of u64::MAX (any window size) panicked in 'min_buffer_delay_us + 1000 s' on the first message, and for delays from u64::MAX/2 up in 'calculated time + buffer time' of the release test (attempt to add with overflow; without overflow checks the sum wraps and messages are released far too early): output neither a permutation nor ordered", "replays/examples/C10-min-delay-near-u64-max.json"),
 ("KF-C14-1", "C14", "C14-file-named-twice-equal-start", "fix: convert removes a file given multiple times also if another file starts at the same time",
  "convert with a file argument named twice (A B A) where another file with the same ECU set starts at the same reception time: the stable sort by start time leaves the two A apart, dedup() only removes neighbours, and every message of A is emitted twice (screen and -o file); files with distinct start times were de-duplicated as intended (test params_file_glob_autoremove_dup)", "replays/examples/C14-file-named-twice-equal-start.json"),
 ("KF-C03-16", "C03", "C03-flst-cumulative-reservation", "fix: file transfer plugin reserves only 64k upfront",
  "with the plugin's defaults (allowSave) every file-transfer announcement reserved up to 16 MiB for the announced size: a 491-byte input with a handful of announcements requested 71 MiB, a 1 MB file with 10 000 announcements would request 160 GB (allocation failure = abort)", "replays/examples/C03-flst-cumulative-reservation.json"),
 ("KF-C03-17", "C03", "C03-get-log-info-app-count", "fix: get log info response with a corrupt app id count",
  "a GET_LOG_INFO control response with a corrupt application count (65535) made parse_ctrl_log_info_payload reserve a vector for 65535 entries (3.4 MB) for a 30-byte message, on every text rendering of the message: 66 MiB requested for a 416-byte input", "replays/examples/C03-get-log-info-app-count.json"),
 ("KF-C03-18", "C03", "C03-logcat-unicode-whitespace", "fix: logcat line with a multi-byte whitespace after the timestamp",
  "a logcat line with a multi-byte Unicode white space (U+00A0, U+2003, ...) directly after the time stamp - the regex \\s accepts it - was sliced one byte behind the time stamp ('byte index is not a char boundary'), monotonic and threadtime format", "replays/examples/C03-logcat-unicode-whitespace.json"),
 ("KF-C03-19", "C03", "C03-tags-empty-after-trim", "fix: get_apid_for_tag terminates for a second tag that is empty after trim",
  "two different logcat/generic-log tags that are both empty after trimming ('' and ' ') made get_apid_for_tag propose the apid ' ' in every iteration: endless loop (in builds with overflow checks the u16 iteration counter overflows after 65 535 rounds) while the global tag map is write-locked", "replays/examples/C03-tags-empty-after-trim.json"),
 ("KF-C01-2", "C01", "C01-index-overflow-at-u32-max", "fix: DltMessageIterator doesn't overflow after a msg with the max index",
  "with a start index such that the last message of a stream is numbered u32::MAX (e.g. one message, start index u32::MAX) DltMessageIterator panicked with 'attempt to add with overflow' at 'self.index += 1' before returning that message (both framings)", "replays/examples/C01-last-index-u32-max.json"),
 ("KF-LC-2", "C05", "C05-message-index-near-u32-max", "fix: lifecycle detection doesn't overflow for msg indices close to u32::MAX",
  "lifecycle detection panicked in the regular-refresh test 'last_regular_refresh_index + 100_000' (attempt to add with overflow) as soon as message indices within 100 000 of u32::MAX had been seen; every later message of the stream was lost (C05, C07 and every pipeline property that runs the stage)", "replays/examples/C05-message-index-near-u32-max.json"),
 ("KF-C18-1", "C18", "C18-payload_from_args-empty-string-or-raw", "fix: payload_from_args writes the length",
  "utils::payload_from_args wrote no u16 length prefix for an empty string/raw argument, so the encoded payload did not decode to the same arguments (a single empty raw value: 4 bytes written, 0 arguments decoded)",
  "replays/examples/C18-payload_from_args-empty-raw.json"),
 ("KF-C17-1", "C17", "C17-duplicate-non-last-package", "fix: file transfer plugin tolerates duplicates",
  "a duplicate of a data package other than the last one (adjacent or delayed) made the transfer end as 'Incomplete file transfer. Missed package n' although every package arrived in order (30-byte file in 3 packages of 10, package 1 duplicated): the duplicate was counted towards the 'all packages received' rule",
  "replays/examples/C17-duplicate-non-last-package.json"),
 ("KF-C17-2", "C17", "C17-duplicate-announcement", "fix: file transfer plugin tolerates a duplicated FLST",
  "a duplicate of the announcement (FLST) of an ongoing transfer started a second transfer entry; with the duplicate arriving after two data packages the packages were split between both entries and neither became complete although every package arrived in order (adjacent duplicate: a phantom incomplete entry besides the complete one)", "replays/examples/C17-duplicate-announcement.json"),
 ("KF-C17-3", "C17", "C17-autosave-follows-dangling-symlink", "fix: file transfer auto save doesn't follow a dangling symlink",
  "automatic saving checked 'path.exists()' and then used File::create: a dangling symbolic link with the file's base name inside the auto-save directory does not 'exist', so the file was written through the link to a location outside the configured directory", "replays/examples/C17-autosave-dangling-symlink.json"),
 ("KF-LC-1", "C05", "LC-assert-newer-lifecycle-confirmed-before-older", "fix: don't assert if a lifecycle that was confirmed",
  "lifecycle detection panicked (assert 'buffered_lcs does not contain', lifecycle/mod.rs) when a lifecycle that was already confirmed had to be merged into the still buffered previous lifecycle of the same ECU (5-message trace: ts 0 @200.0 s, ts 37.6 ms @200.06 s, ts 0 @227.8 s, ts 119.4 s @254.3 s, ts 172.1 s @307.0 s); every property that runs the stage (C03, C05-C08, C10, C13-C16, C19) saw the thread die", None),
 ("KF-C07-1", "C07", "C07-phantom-lifecycle", "fix: remove a merged lifecycle from the published lifecycles",
  "a lifecycle confirmed (published) while all its messages were still queued behind another ECU's buffered lifecycle and merged afterwards stayed in the published table with its old count although no delivered message refers to it (6-message two-ECU trace)", None),
 ("KF-C07-2", "C07", "C07-listing-comparator-not-total", "fix: get_sorted_lifecycles_as_vec sorts by a key",
  "get_sorted_lifecycles_as_vec used a comparator that is not a total order (resume link vs start time): std's sort panicked ('user-provided comparison function does not correctly implement a total order') or listed a resumed lifecycle before its origin", None),
 ("KF-C01-1", "C01", "C01-tiny-serial-tail", "fix: find a serial header msg",
  "a stream whose first serial-header message starts less than 20 bytes before the end (e.g. one 12-byte DLS message alone) yielded no message: the iterator stopped at the storage parser's NotEnoughData before trying the serial parser",
  "replays/examples/C01-tiny-serial-tail.json"),
 ("KF-C04-1", "C04", "C04-stale-bytes-after-backward-seek", "fix: LowMarkBufReader keeps valid data",
  "LowMarkBufReader: after a compaction with alignment offset > 0 a seek to an absolute position in [abs_pos, abs_pos+offset) was accepted (the repository's own test requires it to be) and handed out stale bytes of the old buffer (e.g. capacity 8292, low mark 4096: seek back, consume 6960, fill_buf, seek(Start(4196)))", None),
 ("KF-C04-2", "C04", "C04-near-max-msg-lookahead", "fix: keep 4 bytes look-ahead",
  "a message of 65548..65551 bytes with an embedded frame marker followed by non-marker bytes was accepted when fewer than 4 following bytes were buffered (legal with low mark = DLT_MAX_STORAGE_MSG_SIZE) and skipped when more were: result depended on read chunking", None),
 ("KF-C20-1", "C20", "C20-cloneable-reader-stale-pos", "fix: CloneableSeekableReader tracks",
  "CloneableSeekableReader::Inner::read_at did not update its position after seeking the underlying reader; a later read at an offset equal to the stale position read from the wrong place, so well-formed zip archives (e.g. members 'd1/d2/', 'd3/./f.dlt', empty 'empty.bin') were rejected as corrupt and nothing was extracted", None),
 ("KF-C20-2", "C20", "C20-chain-empty-volume-and-seek-semantics", "fix: SeekableChain skips empty readers",
  "SeekableChain: an empty volume made read return 0 although later volumes had data (volumes '', '04': read(1) at position 0 returned 0); seek(Start(n > len)) returned len instead of n and seek(Current(-k)) below 0 returned Ok(0) where a single file returns n resp. an error, so following relative seeks diverged from a single file", None),
 ("KF-C20-3", "C20", "C20-existing-outside-file-reported", "fix: don't report archive members with names leading outside",
  "extract_to_dir reported a member named '../evil.dlt' as extracted when a file happened to exist at <target>/../evil.dlt (outside the temporary directory): the 'already extracted' shortcut did not check that the name stays inside", None),
 ("KF-C20-4", "C20", "C20-partial-file-after-cancelled-extraction", "fix: remove the partial file when the extraction",
  "extract_to_dir: a request cancelled (or failing) while a member was being copied left the partial file in the target directory; the next request for the same member into the same directory (the temporary directory is kept per archive) found the file, skipped the extraction and reported it as extracted: b.txt reported with 121000 of the member's 128263 bytes after a request cancelled at 87 % of the archive and repeated", "replays/examples/C20-partial-file-after-cancel.json"),
 ("KF-C03-20", "C03", "C03-text-iterators-index-overflow", "fix: asc/blf/genlog/logcat iterators: index of the next msg wraps",
  "the CAN-ASC, BLF, generic-log and logcat iterators computed the index of the next message with an unchecked += 1: a file whose numbering continues from earlier files at u32::MAX-k panicked ('attempt to add with overflow') right after the message with index u32::MAX, where DltMessageIterator and the merge iterators wrap", "replays/examples/C03-text-iterator-index-overflow.json"),
]
OPEN = [
 # (id, property, key, what, replay)
 ("KF-C08-1", "C08", "C08-late-connect-boots-merged",
  "two consecutive boots of one ECU are merged into one lifecycle when the calculated start of the later boot (power-on + its constant delay) is not after the calculated end of the earlier one (power-on + delay + largest uptime), i.e. the earlier boot's transport delay exceeds the later one's by at least the recording gap ('recorder connected late'); cascades through the merged range included. Heuristic of the detector (membership = calculated start <= current end); no small safe repair.",
  "replays/examples/C08-late-connect-boots-merged.json"),
 ("KF-C13-1", "C13", "C13-remote-client-keeps-merged-lifecycle",
  "remote server: a lifecycle that was published (and sent to the client in a lifecycle update) while its messages were still queued, and merged into its predecessor afterwards, is never withdrawn: the update protocol only carries changed lifecycles and has no removal, so a client that follows the updates ends with a lifecycle (e.g. ECU0, 2 msgs) that the final table of the same file does not contain. Whether the server observes the intermediate state depends on the pacing of the pipeline (seen with channel bound 0: lifecycle stage parked in send while the server loop polls the table; with unbounded channels the stage finishes first). A repair needs a protocol extension (removal notice) on server and client side; not small and safe.",
  "replays/examples/C13-remote-client-keeps-merged-lifecycle.json"),
]
out = []
for (i, p, k, subj, what, rp) in FIXED:
    h = sha(subj)
    e = {"id": i, "property": p, "key": k, "status": "fixed", "commit": h, "what": what,
         "line": "fixed: property=%s %s %s" % (p, h[:12], what)}
    if rp: e["replay"] = rp
    out.append(e)
for (i, p, k, what, rp) in OPEN:
    e = {"id": i, "property": p, "key": k, "status": "open", "what": what}
    if rp: e["replay"] = rp
    out.append(e)
json.dump(out, open("/verif/known_findings.json", "w"), indent=1)
print("known_findings.json:", len(FIXED), "fixed,", len(OPEN), "open")
