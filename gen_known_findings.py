#!/usr/bin/env python3
"""Writes /verif/known_findings.json. Run by hand when a finding is added or fixed (never at check time).
Commit hashes of fix: commits are resolved from /repo's history by subject prefix."""
import json, subprocess
LOG = subprocess.check_output(["git", "-C", "/repo", "log", "--format=%H %s"], text=True).splitlines()
def sha(prefix):
    for l in LOG:
        h, s = l.split(' ', 1)
        if s.startswith(prefix):
            return h
    raise SystemExit("no commit with subject prefix: " + prefix)

FIXED = [
 ("KF-C01-1", "C01", "C01-tiny-serial-tail", "fix: find a serial header msg",
  "a stream whose first serial-header message starts less than 20 bytes before the end (e.g. one 12-byte DLS message alone) yielded no message: the iterator stopped at the storage parser's NotEnoughData before trying the serial parser",
  "replays/examples/C01-tiny-serial-tail.json"),
 ("KF-C04-1", "C04", "C04-stale-bytes-after-backward-seek", "fix: LowMarkBufReader keeps valid data",
  "LowMarkBufReader: after a compaction with alignment offset > 0 a seek to an absolute position in [abs_pos, abs_pos+offset) was accepted (the repository's own test requires it to be) and handed out stale bytes of the old buffer (e.g. capacity 8292, low mark 4096: seek back, consume 6960, fill_buf, seek(Start(4196)))", None),
 ("KF-C04-2", "C04", "C04-near-max-msg-lookahead", "fix: keep 4 bytes look-ahead",
  "a message of 65548..65551 bytes with an embedded frame marker followed by non-marker bytes was accepted when fewer than 4 following bytes were buffered (legal with low mark = DLT_MAX_STORAGE_MSG_SIZE) and skipped when more were: result depended on read chunking", None),
 ("KF-C20-1", "C20", "C20-cloneable-reader-stale-pos", "fix: CloneableSeekableReader tracks",
  "CloneableSeekableReader::Inner::read_at did not update its position after seeking the underlying reader; a later read at an offset equal to the stale position read from the wrong place, so well-formed zip archives (e.g. members 'd1/d2/', 'd3/./f.dlt', empty 'empty.bin') were rejected as corrupt and nothing was extracted", None),
 ("KF-C20-2", "C20", "C20-chain-empty-volume-and-seek-semantics", "fix: SeekableChain skips empty readers",
  "SeekableChain: an empty volume made read return 0 although later volumes had data (volumes '', '04': read(1) at position 0 returned 0); seek(Start(n > len)) returned len instead of n and seek(Current(-k)) below 0 returned Ok(0) where a single file returns n resp. an error, so following relative seeks diverged from a single file", None),
 ("KF-C20-3", "C20", "C20-existing-outside-file-reported", "fix: don't report archive members with names leading outside",
  "extract_to_dir reported a member named '../evil.dlt' as extracted when a file happened to exist at <target>/../evil.dlt (outside the temporary directory): the 'already extracted' shortcut did not check that the name stays inside", None),
]
OPEN = [
 # (id, property, key, what, replay)
]
out = []
for (i, p, k, subj, what, rp) in FIXED:
    h = sha(subj)
    e = {"id": i, "property": p, "key": k, "status": "fixed", "commit": h, "what": what,
         "line": "fixed: property=%s %s %s" % (p, h[:12], what)}
    if rp: e["replay"] = rp
    out.append(e)
for (i, p, k, what, rp) in OPEN:
    e = {"id": i, "property": p, "key": k, "status": "open", "what": what}
    if rp: e["replay"] = rp
    out.append(e)
json.dump(out, open("/verif/known_findings.json", "w"), indent=1)
print("known_findings.json:", len(FIXED), "fixed,", len(OPEN), "open")
