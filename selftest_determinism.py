#!/usr/bin/env python3
"""Determinism self-test: every check, several seeds, each batch executed three times in separate
processes (twice with 16 workers, once with 5) - the per-run digests (event log hash xor verdict)
must be identical. Usage: selftest_determinism.py [ids...] [--runs N] [--seeds a,b,c]"""
import subprocess, sys, os, tempfile, json, time

BIN = "/verif/sim/target/release/checks"
ids = [a for a in sys.argv[1:] if a.startswith("C")]
runs = 1500
seeds = [1, 7, 1234567]
for i, a in enumerate(sys.argv):
    if a == "--runs":
        runs = int(sys.argv[i + 1])
    if a == "--seeds":
        seeds = [int(x) for x in sys.argv[i + 1].split(",")]
if not ids:
    ids = subprocess.check_output([BIN, "list"], text=True).split()

env = dict(os.environ, VERIF_NO_SHRINK="1", VERIF_MAX_REPORTS="0", TZ="UTC", RAYON_NUM_THREADS="2")
bad = 0
summary = []
for cid in ids:
    # expensive checks get fewer runs
    n = {"C17": 60, "C03": 600, "C15": 500, "C16": 900, "C14": 400, "C18": 300}.get(cid, runs)
    t0 = time.time()
    for seed in seeds:
        outs = []
        for k, jobs in enumerate([16, 16, 5]):
            f = tempfile.mktemp(prefix=f"digest-{cid}-{seed}-{k}-", dir="/verif/sim/target")
            subprocess.run([BIN, "run", cid, "--runs", str(n), "--seed", str(seed), "--jobs", str(jobs), "--digest-out", f],
                           env=env, stdout=subprocess.DEVNULL, stderr=subprocess.DEVNULL)
            try:
                outs.append(open(f).read())
                os.unlink(f)
            except FileNotFoundError:
                outs.append(None)
        ok = outs[0] is not None and outs[0] == outs[1] == outs[2] and len(outs[0].splitlines()) == n
        if not ok:
            bad += 1
            print(f"NONDETERMINISTIC {cid} seed={seed}: lines {[None if o is None else len(o.splitlines()) for o in outs]}")
            if outs[0] and outs[1]:
                a, b, c = outs[0].splitlines(), outs[1].splitlines(), (outs[2] or "").splitlines()
                d = [x for x, y in zip(a, b) if x != y][:3] + [x for x, y in zip(a, c) if x != y][:3]
                print("   first differing digests:", d)
    summary.append((cid, n, len(seeds), round(time.time() - t0, 1)))
    print(f"{cid}: {n} runs x {len(seeds)} seeds x 3 executions compared in {summary[-1][3]}s", flush=True)
json.dump({"checks": summary, "nondeterministic": bad}, open("/verif/sim/target/selftest_determinism.json", "w"))
print("DETERMINISM", "OK" if bad == 0 else f"FAILED ({bad})")
sys.exit(0 if bad == 0 else 2)
