#!/usr/bin/env python3
"""Parallel sensitivity self-test. Same verdicts as selftest_sensitivity.py, but every lane works on
its own scratch copy: a git worktree of /repo's HEAD plus a path-rewritten copy of /verif (check,
run_seeded.sh, sim sources, seeded changes, known findings) under /tmp/lanes/L<n>, so that several
seeded changes can be applied, built and checked at the same time. /repo itself is never patched.
The scratch copies are removed at the end. Refuses to start when /repo has uncommitted changes
(the lanes are made from HEAD and must equal the working tree the registered checks use).
Usage: selftest_sensitivity_par.py [--lanes N] [names...]"""
import json, os, queue, shutil, subprocess, sys, threading, time

args = sys.argv[1:]
lanes = 4
if "--lanes" in args:
    i = args.index("--lanes")
    lanes = int(args[i + 1])
    del args[i:i + 2]
names = args or sorted(os.listdir("/verif/seeded"))
names = [n for n in names if os.path.exists(f"/verif/seeded/{n}/patch.diff")]
BASE = "/tmp/lanes"

if subprocess.run(["git", "-C", "/repo", "diff", "--quiet"]).returncode != 0:
    print("refusing: /repo has uncommitted changes")
    sys.exit(2)


def sh(cmd, **kw):
    return subprocess.run(cmd, shell=True, capture_output=True, text=True, **kw)


def setup_lane(k):
    lane = f"{BASE}/L{k}"
    sh(f"git -C /repo worktree remove --force {lane}/r; rm -rf {lane}; mkdir -p {lane}")
    r = sh(f"git -C /repo worktree add --detach {lane}/r HEAD")
    if r.returncode != 0:
        raise RuntimeError(r.stderr)
    sh(f"rsync -a --exclude .git --exclude 'sim/target' --exclude replays --exclude evidence /verif/ {lane}/v/")
    os.makedirs(f"{lane}/v/replays", exist_ok=True)
    files = sh(f"cd {lane}/v && ls check run_seeded.sh && find sim -name '*.rs' -o -name '*.toml' | grep -v '^sim/target'").stdout.split()
    for f in files:
        p = f"{lane}/v/{f}"
        s = open(p).read()
        s2 = s.replace("/repo", f"{lane}/r").replace("/verif", f"{lane}/v")
        if s2 != s:
            open(p, "w").write(s2)
    r = sh(f"cd {lane}/v && ./check setup")
    if "setup ok" not in r.stdout:
        raise RuntimeError(f"lane {k} setup failed: {r.stdout} {r.stderr}")
    return lane


q = queue.Queue()
for n in names:
    q.put(n)
rows = {}
lock = threading.Lock()


def worker(k):
    lane = setup_lane(k)
    while True:
        try:
            n = q.get_nowait()
        except queue.Empty:
            return
        meta = json.load(open(f"/verif/seeded/{n}/meta.json"))
        prop = meta["property"]
        checks = [prop] + meta.get("also_checks", [])
        t0 = time.time()
        env = dict(os.environ, VERIF_TMP=f"{lane}/v/sim/target/tmp")
        out = subprocess.run([f"{lane}/v/run_seeded.sh", n] + checks, capture_output=True, text=True, env=env).stdout
        verdict = "CAUGHT" if "CAUGHT" in out else ("MISSED" if "MISSED" in out else "ERROR")
        classes = sorted(set(l.split("class=")[1].split()[0] for l in out.splitlines() if "VIOLATION" in l and "class=" in l))
        classes = [c.replace(f"{lane}/r/", "").replace(f"{lane}/v", "/verif") for c in classes]
        try:
            res = open(f"{lane}/v/seeded/{n}/result.txt").read().replace(f"{lane}/r", "/repo").replace(f"{lane}/v", "/verif")
            open(f"/verif/seeded/{n}/result.txt", "w").write(res)
        except OSError:
            pass
        with lock:
            rows[n] = (n, prop, verdict, ", ".join(classes)[:120], round(time.time() - t0, 1))
            print(f"{n:28s} {prop} {verdict:7s} {', '.join(classes)[:100]}", flush=True)
            if verdict == "ERROR":
                print(out[-400:], flush=True)


ths = [threading.Thread(target=worker, args=(k,)) for k in range(lanes)]
for t in ths:
    t.start()
for t in ths:
    t.join()
for k in range(lanes):
    sh(f"git -C /repo worktree remove --force {BASE}/L{k}/r; rm -rf {BASE}/L{k}")
sh("git -C /repo worktree prune")
missed = sum(1 for n in names if rows.get(n, (0, 0, "ERROR"))[2] != "CAUGHT")
# SUMMARY.md: rows of the changes run now replace their old rows, the others are kept
table = {}
try:
    for l in open("/verif/seeded/SUMMARY.md"):
        c = [x.strip() for x in l.strip().strip("|").split("|")]
        if len(c) == 4 and c[0] not in ("seeded change", "---") and os.path.exists(f"/verif/seeded/{c[0]}/patch.diff"):
            table[c[0]] = c
except OSError:
    pass
for n in names:
    r = rows.get(n, (n, "?", "ERROR", "", 0))
    table[n] = [r[0], r[1], r[2], r[3]]
with open("/verif/seeded/SUMMARY.md", "w") as f:
    f.write("| seeded change | property | quick check verdict | violation classes reported |\n|---|---|---|---|\n")
    for n in sorted(table):
        f.write("| " + " | ".join(table[n]) + " |\n")
print("SENSITIVITY", "OK" if missed == 0 else f"{missed} not caught")
sys.exit(0 if missed == 0 else 1)
