//! C17 — Embedded file transfers are reassembled bit-exactly or not at all (E4 `protosim`,
//! fault enumeration): senders over a lossy interleaving transport, receiver = the real plugin.

use crate::fw::{hexbytes, shrink_vec, Check, Ctx, Tier, Violation};
use crate::rng::Rng;
use crate::viol;
use crate::world::*;
use adlt::dlt::{DltChar4, DltExtendedHeader, DltMessage, DltStandardHeader};
use adlt::plugins::plugin::Plugin;
use serde::{Deserialize, Serialize};
use std::collections::BTreeMap;
use std::path::PathBuf;

#[derive(Clone, Debug, PartialEq, Serialize, Deserialize)]
pub enum Fault {
    None,
    Drop(usize),
    DupAdjacent(usize),
    DupDelayed(usize, usize),
    Swap(usize),
    Resize(usize, i32),
    DropFlst,
    DropFlfi,
    /// the announcement arrives twice (adjacent, or again after k further messages)
    DupFlst(usize),
    /// the end marker arrives twice
    DupFlfi,
}

#[derive(Clone, Debug, Serialize, Deserialize)]
pub struct Transfer {
    pub ecu: u8,
    pub lifecycle: u32,
    pub serial: u32,
    pub name: String,
    #[serde(with = "hexbytes")]
    pub data: Vec<u8>,
    pub pkg: usize,
    pub big_endian: bool,
    /// encode package numbers as SINT32 (as real senders do) instead of UINT32
    pub sint_pkg_nr: bool,
}

#[derive(Clone, Debug, Serialize, Deserialize)]
pub struct Case {
    pub transfers: Vec<Transfer>,
    /// which sender emits next (index into transfers, >= len = unrelated traffic)
    pub interleave: Vec<u8>,
    pub allow_save: bool,
    pub keep_flda: bool,
    pub auto_save: bool,
    pub auto_save_glob: String,
    /// base names pre-seeded in the auto-save directory
    pub preexisting: Vec<String>,
    /// base names present in the auto-save directory as dangling symbolic links that point outside of it
    #[serde(default)]
    pub dangling_links: Vec<String>,
    /// faults to apply to transfer 0; None in the list = fault-free configuration. Empty = enumerate all single faults
    pub faults: Vec<Fault>,
    /// fault applied to the other transfers (cycled)
    pub other_faults: Vec<Fault>,
}

// ---- verbose payload encoder (independent of adlt's)
fn put_u32(p: &mut Vec<u8>, v: u32, be: bool) {
    if be {
        p.extend_from_slice(&v.to_be_bytes())
    } else {
        p.extend_from_slice(&v.to_le_bytes())
    }
}
fn put_u16(p: &mut Vec<u8>, v: u16, be: bool) {
    if be {
        p.extend_from_slice(&v.to_be_bytes())
    } else {
        p.extend_from_slice(&v.to_le_bytes())
    }
}
fn arg_str(p: &mut Vec<u8>, s: &str, be: bool) {
    put_u32(p, if s.is_ascii() { 0x0000_0200 } else { 0x0000_8200 }, be); // non-ASCII names are sent UTF-8 coded
    put_u16(p, (s.len() + 1) as u16, be);
    p.extend_from_slice(s.as_bytes());
    p.push(0);
}
fn arg_u32(p: &mut Vec<u8>, v: u32, be: bool) {
    put_u32(p, 0x0000_0043, be);
    put_u32(p, v, be);
}
fn arg_i32(p: &mut Vec<u8>, v: i32, be: bool) {
    put_u32(p, 0x0000_0023, be);
    put_u32(p, v as u32, be);
}
fn arg_raw(p: &mut Vec<u8>, d: &[u8], be: bool) {
    put_u32(p, 0x0000_0400, be);
    put_u16(p, d.len() as u16, be);
    p.extend_from_slice(d);
}

fn ft_msg(t: &Transfer, noar: u8, payload: Vec<u8>, rx_us: u64) -> DltMessage {
    let htyp = 0x20 | 0x01 | 0x04 | 0x10 | if t.big_endian { 0x02 } else { 0 };
    DltMessage {
        index: 0,
        reception_time_us: rx_us,
        ecu: DltChar4::from_buf(&ecu_name(t.ecu)),
        timestamp_dms: 0,
        standard_header: DltStandardHeader { htyp, mcnt: 0, len: (4 + 4 + 4 + 10 + payload.len()) as u16 },
        extended_header: Some(DltExtendedHeader {
            verb_mstp_mtin: 0x01 | (4 << 4), // verbose, log, info
            noar,
            apid: DltChar4::from_buf(b"SYS\0"),
            ctid: DltChar4::from_buf(b"FILE"),
        }),
        payload,
        payload_text: None,
        lifecycle: t.lifecycle,
    }
}

fn n_packages(t: &Transfer) -> usize {
    std::cmp::max(1, t.data.len().div_ceil(t.pkg))
}

/// the sender's message sequence with one fault applied
fn sender_msgs(t: &Transfer, f: &Fault) -> Vec<DltMessage> {
    let be = t.big_endian;
    let n = n_packages(t);
    let mut v: Vec<(i64, DltMessage)> = vec![]; // (package nr or 0 for FLST / -1 for FLFI)
    if *f != Fault::DropFlst {
        let mut p = vec![];
        arg_str(&mut p, "FLST", be);
        arg_u32(&mut p, t.serial, be);
        arg_str(&mut p, &t.name, be);
        arg_u32(&mut p, t.data.len() as u32, be);
        arg_str(&mut p, "Mon Jan  1 00:00:00 2024", be);
        arg_u32(&mut p, n as u32, be);
        arg_u32(&mut p, t.pkg as u32, be);
        arg_str(&mut p, "FLST", be);
        v.push((0, ft_msg(t, 8, p, 0)));
    }
    for i in 1..=n {
        let a = (i - 1) * t.pkg;
        let b = std::cmp::min(t.data.len(), i * t.pkg);
        let mut chunk = t.data[a..b].to_vec();
        if let Fault::Resize(k, d) = f {
            if *k == i {
                if *d < 0 {
                    let cut = std::cmp::min(chunk.len(), (-*d) as usize);
                    chunk.truncate(chunk.len() - cut);
                } else {
                    chunk.extend(std::iter::repeat(0xEEu8).take(*d as usize));
                }
            }
        }
        let mut p = vec![];
        arg_str(&mut p, "FLDA", be);
        arg_u32(&mut p, t.serial, be);
        if t.sint_pkg_nr {
            arg_i32(&mut p, i as i32, be);
        } else {
            arg_u32(&mut p, i as u32, be);
        }
        arg_raw(&mut p, &chunk, be);
        arg_str(&mut p, "FLDA", be);
        v.push((i as i64, ft_msg(t, 5, p, 0)));
    }
    if *f != Fault::DropFlfi {
        let mut p = vec![];
        arg_str(&mut p, "FLFI", be);
        arg_u32(&mut p, t.serial, be);
        arg_str(&mut p, "FLFI", be);
        v.push((-1, ft_msg(t, 3, p, 0)));
    }
    let pos = |v: &Vec<(i64, DltMessage)>, i: usize| v.iter().position(|(k, _)| *k == i as i64);
    match f {
        Fault::Drop(i) => {
            if let Some(p) = pos(&v, *i) {
                v.remove(p);
            }
        }
        Fault::DupAdjacent(i) => {
            if let Some(p) = pos(&v, *i) {
                let c = v[p].clone();
                v.insert(p + 1, c);
            }
        }
        Fault::DupDelayed(i, k) => {
            if let Some(p) = pos(&v, *i) {
                let c = v[p].clone();
                let at = std::cmp::min(v.len(), p + 1 + *k);
                v.insert(at, c);
            }
        }
        Fault::Swap(i) => {
            if let (Some(a), Some(b)) = (pos(&v, *i), pos(&v, *i + 1)) {
                v.swap(a, b);
            }
        }
        Fault::DupFlst(k) => {
            if let Some(p) = v.iter().position(|(x, _)| *x == 0) {
                let c = v[p].clone();
                let at = std::cmp::min(v.len(), p + 1 + *k);
                v.insert(at, c);
            }
        }
        Fault::DupFlfi => {
            if let Some(p) = v.iter().position(|(x, _)| *x == -1) {
                let c = v[p].clone();
                v.insert(p + 1, c);
            }
        }
        _ => {}
    }
    v.into_iter().map(|(_, m)| m).collect()
}

pub fn all_single_faults(t: &Transfer) -> Vec<Fault> {
    let n = n_packages(t);
    let mut v = vec![Fault::None, Fault::DropFlst, Fault::DropFlfi, Fault::DupFlst(0), Fault::DupFlst(2), Fault::DupFlfi];
    let idxs: Vec<usize> = if n <= 24 { (1..=n).collect() } else { vec![1, 2, 3, n / 2, n - 2, n - 1, n] };
    for i in idxs {
        v.push(Fault::Drop(i));
        v.push(Fault::DupAdjacent(i));
        v.push(Fault::DupDelayed(i, 2));
        v.push(Fault::DupDelayed(i, n + 3));
        if i < n {
            v.push(Fault::Swap(i));
        }
        v.push(Fault::Resize(i, -1));
        v.push(Fault::Resize(i, 1));
        if t.pkg > 3 {
            v.push(Fault::Resize(i, -(t.pkg as i32) / 2));
        }
    }
    v
}

fn root_dir() -> PathBuf {
    let base = std::env::var("VERIF_TMP").unwrap_or_else(|_| "/verif/sim/target/tmp".to_string());
    PathBuf::from(base).join(format!("c17-{}", std::process::id()))
}

fn snapshot(root: &std::path::Path) -> BTreeMap<PathBuf, Vec<u8>> {
    let mut m = BTreeMap::new();
    let mut st = vec![root.to_path_buf()];
    while let Some(d) = st.pop() {
        if let Ok(rd) = std::fs::read_dir(&d) {
            for e in rd.flatten() {
                let p = e.path();
                if p.is_dir() {
                    m.insert(p.clone(), vec![]);
                    st.push(p);
                } else {
                    m.insert(p.clone(), std::fs::read(&p).unwrap_or_default());
                }
            }
        }
    }
    m
}

struct Observed {
    complete: bool,
    label: String,
    save_idx: Option<u64>,
    auto_saved_to: Option<String>,
}

fn observe(plugin: &dyn Plugin, t: &Transfer) -> Option<Observed> {
    let st = plugin.state();
    let st = st.read().unwrap();
    let items = st.value["treeItems"].as_array()?;
    let needle = format!("LC id={}, serial #{},", t.lifecycle, t.serial);
    let ecu = String::from_utf8_lossy(&ecu_name(t.ecu)).trim_end_matches('\0').to_string();
    for it in items {
        if it.get("children").is_some() {
            continue;
        }
        let tip = it["tooltip"].as_str().unwrap_or("");
        if tip.contains(&needle) && tip.starts_with(&ecu) {
            return Some(Observed {
                complete: it["iconPath"].as_str() == Some("file"),
                label: it["label"].as_str().unwrap_or("").to_string(),
                save_idx: it["cmdCtx"]["save"]["idx"].as_u64(),
                auto_saved_to: it["meta"]["autoSavedTo"].as_str().map(|s| s.to_string()),
            });
        }
    }
    None
}

fn base_name(name: &str) -> Option<String> {
    std::path::Path::new(name).file_name().map(|s| s.to_string_lossy().to_string())
}

fn run_one(c: &Case, f0: &Fault, ctx: &mut Ctx) -> Result<(), Violation> {
    let root = root_dir();
    let _ = std::fs::remove_dir_all(&root);
    let autodir = root.join("sandbox").join("autosave");
    let savedir = root.join("sandbox").join("manual");
    std::fs::create_dir_all(&autodir).unwrap();
    std::fs::create_dir_all(&savedir).unwrap();
    std::fs::write(root.join("outer_canary.txt"), b"outer").unwrap();
    std::fs::write(root.join("sandbox").join("sibling_canary.txt"), b"sibling").unwrap();
    for p in &c.preexisting {
        std::fs::write(autodir.join(p), b"pre-existing content").unwrap();
    }
    for p in &c.dangling_links {
        if !c.preexisting.contains(p) {
            let _ = std::os::unix::fs::symlink(root.join("sandbox").join(format!("outside_via_link_{}", p)), autodir.join(p));
            ctx.probe("dangling_symlink_in_autosave_dir");
        }
    }
    let before = snapshot(&root);
    let mut cfg = serde_json::json!({"name":"FileTransfer","enabled":true,"allowSave":c.allow_save,"keepFLDA":c.keep_flda});
    if c.auto_save {
        cfg["autoSavePath"] = autodir.to_string_lossy().to_string().into();
        cfg["autoSaveGlob"] = c.auto_save_glob.clone().into();
    }
    let mut eac = adlt::utils::eac_stats::EacStats::default();
    let mut plugin = match adlt::plugins::factory::get_plugin(cfg.as_object().unwrap(), &mut eac) {
        Some(p) => p,
        None => viol!("plugin-config-rejected", "FileTransfer plugin rejected config {}", cfg),
    };
    // senders
    let mut queues: Vec<std::collections::VecDeque<DltMessage>> = c
        .transfers
        .iter()
        .enumerate()
        .map(|(i, t)| {
            let f = if i == 0 { f0.clone() } else if c.other_faults.is_empty() { Fault::None } else { c.other_faults[(i - 1) % c.other_faults.len()].clone() };
            sender_msgs(t, &f).into()
        })
        .collect();
    // transport: interleave
    let mut stream: Vec<(Option<usize>, DltMessage)> = vec![];
    let mut il = c.interleave.iter().cycle();
    let mut unrelated = 0u32;
    let mut guard = 0;
    while queues.iter().any(|q| !q.is_empty()) {
        guard += 1;
        let pick = if c.interleave.is_empty() || guard > 200_000 { 0 } else { *il.next().unwrap() as usize };
        if pick < queues.len() {
            if let Some(m) = queues[pick].pop_front() {
                stream.push((Some(pick), m));
                continue;
            }
        } else if guard <= 200_000 {
            unrelated += 1;
            let m = TMsg { ecu: (unrelated % 3) as u8, boot: 0, rx_us: 1_000_000 + unrelated as u64, ts: unrelated, has_ts: true, kind: if unrelated % 4 == 0 { K_NONVERB } else { K_LOG }, app: (unrelated % 12) as u8, mcnt: 0, n: unrelated, flags: 0 }.to_dlt(0);
            stream.push((None, m));
            continue;
        }
        // picked queue empty: take the first non-empty
        if let Some(i) = queues.iter().position(|q| !q.is_empty()) {
            let m = queues[i].pop_front().unwrap();
            stream.push((Some(i), m));
        }
    }
    // receiver
    for (i, (_, m)) in stream.iter_mut().enumerate() {
        m.index = i as u32;
        m.reception_time_us = 1_000_000 + i as u64 * 1000;
        let before_m = m.clone();
        let keep = plugin.process_msg(m);
        let is_flda = m.noar() == 5 && adlt::plugins::file_transfer::FileTransferPlugin::is_type(m, "FLDA");
        if !keep && !(is_flda && !c.keep_flda) {
            viol!("plugin-dropped-message", "message {} was dropped by the plugin (keepFLDA={})", i, c.keep_flda);
        }
        if keep == (is_flda && !c.keep_flda) && is_flda {
            viol!("plugin-flda-keep", "FLDA message {} keep={} but keepFLDA={}", i, keep, c.keep_flda);
        }
        if m.payload != before_m.payload || m.index != before_m.index || m.lifecycle != before_m.lifecycle {
            viol!("plugin-altered-message", "message {} altered", i);
        }
    }
    // verdicts
    for (ti, t) in c.transfers.iter().enumerate() {
        let f = if ti == 0 { f0.clone() } else if c.other_faults.is_empty() { Fault::None } else { c.other_faults[(ti - 1) % c.other_faults.len()].clone() };
        let n = n_packages(t);
        // the same (ecu, lifecycle, serial) must not be used twice in one case
        let must_complete = matches!(f, Fault::None | Fault::DupAdjacent(_) | Fault::DupDelayed(_, _) | Fault::DropFlfi | Fault::DupFlst(_) | Fault::DupFlfi) && !t.data.is_empty();
        match f {
            Fault::DupFlst(_) => ctx.probe("duplicate_announcement"),
            Fault::DupFlfi => ctx.probe("duplicate_end_marker"),
            _ => {}
        }
        let must_not_complete = match &f {
            Fault::Drop(i) | Fault::Swap(i) => *i >= 1 && *i <= n,
            Fault::Resize(i, d) => *i >= 1 && *i <= n && *d != 0,
            _ => false,
        };
        let obs = observe(plugin.as_ref(), t);
        let tag = format!("transfer#{} (serial {}, '{}', {} bytes in {} packages of {}, fault {:?})", ti, t.serial, t.name, t.data.len(), n, t.pkg, f);
        let complete = obs.as_ref().map(|o| o.complete).unwrap_or(false);
        if must_complete && !complete {
            let cls = match f {
                Fault::DupAdjacent(i) | Fault::DupDelayed(i, _) if i < n => "duplicate-of-non-last-package-not-tolerated",
                Fault::None => "complete-transfer-not-recognised",
                Fault::DupFlst(_) => "duplicate-announcement-not-tolerated",
                Fault::DupFlfi => "duplicate-end-marker-not-tolerated",
                _ => "transfer-not-complete",
            };
            viol!(cls, "{}: not reported complete although all packages arrived in order: {:?}", tag, obs.as_ref().map(|o| o.label.clone()));
        }
        if must_not_complete && complete {
            viol!("damaged-transfer-reported-complete", "{}: reported complete", tag);
        }
        if let Some(o) = &obs {
            if complete && c.allow_save {
                // manual save
                let idx = match o.save_idx {
                    Some(i) => i,
                    None => viol!("save-not-offered", "{}: complete but no save context", tag),
                };
                let target = savedir.join(format!("saved_{}.bin", ti));
                if (t.data.len() + ti) % 3 == 0 {
                    // 'save as' over an older, longer version of the file
                    std::fs::write(&target, vec![0xEEu8; t.data.len() + 17]).unwrap();
                    ctx.probe("manual_save_over_longer_existing_file");
                }
                let st = plugin.state();
                let st = st.read().unwrap();
                let params = serde_json::json!({"saveAs": target.to_string_lossy()});
                let sctx = serde_json::json!({"save":{"idx":idx}});
                let ok = match st.apply_command {
                    Some(f) => f(&st.internal_data, "save", params.as_object(), sctx.as_object()),
                    None => false,
                };
                if !ok {
                    viol!("save-failed", "{}: save command failed", tag);
                }
                let got = std::fs::read(&target).unwrap_or_default();
                if got != t.data {
                    viol!("saved-content-differs", "{}: saved {} bytes differ from the original {} bytes", tag, got.len(), t.data.len());
                }
                let _ = std::fs::remove_file(&target);
                ctx.probe("manual_saves_compared");
            }
            if let Some(p) = &o.auto_saved_to {
                let pb = PathBuf::from(p);
                if !pb.starts_with(&autodir) {
                    viol!("autosave-outside-directory", "{}: auto-saved to {}", tag, p);
                }
                if !complete {
                    viol!("autosave-of-incomplete", "{}: auto-saved although not complete", tag);
                }
                let got = std::fs::read(&pb).unwrap_or_default();
                if got != t.data {
                    viol!("autosaved-content-differs", "{}: auto-saved file differs from the original", tag);
                }
                ctx.probe("auto_saves_compared");
            }
        }
    }
    // file system effects: nothing outside autodir changed, pre-existing files untouched, every new
    // file in autodir is the content of a complete transfer
    let after = snapshot(&root);
    for (p, v) in after.iter() {
        match before.get(p) {
            Some(b) => {
                if b != v {
                    viol!("existing-file-overwritten", "{} changed (fault {:?})", p.display(), f0);
                }
            }
            None => {
                if !p.starts_with(&autodir) {
                    viol!("write-outside-directory", "{} was created outside the auto-save directory", p.display());
                }
                let placeholder = p.file_name().map(|n| n.to_string_lossy().starts_with('<')).unwrap_or(false);
                let ok = c.transfers.iter().any(|t| *v == t.data && (placeholder || base_name(&t.name).map(|b| autodir.join(b) == *p).unwrap_or(true)));
                if !ok && !v.is_empty() {
                    viol!("damaged-content-saved", "{} ({} bytes) is not the content of any original file with that base name", p.display(), v.len());
                }
            }
        }
    }
    for p in before.keys() {
        if !after.contains_key(p) {
            viol!("existing-file-removed", "{}", p.display());
        }
    }
    Ok(())
}

pub struct C17;
impl Check for C17 {
    type Case = Case;
    const ID: &'static str = "C17";
    const LEVEL: &'static str = "fault_enumeration";
    fn runs(t: Tier) -> u64 {
        t.pick(600, 20_000)
    }
    fn generate(rng: &mut Rng, _tier: Tier, _idx: u64) -> Case {
        let nt = rng.weighted(&[50, 35, 15]) + 1;
        let names = ["log.txt", "a/b.bin", "/etc/x", "../x", "..", "dir/sub/core.dump", "same.bin", "same.bin", "x y.z", "\u{e4}.bin"];
        let mut transfers = vec![];
        for i in 0..nt {
            let pkg = *rng.pick(&[1usize, 7, 10, 64, 1024, 1024, 4096]);
            let size = match rng.below(7) {
                0 => 1,
                1 => pkg.saturating_sub(1).max(1),
                2 => pkg,
                3 => pkg + 1,
                4 => pkg * rng.urange(2, 6),
                _ => rng.urange(1, if pkg == 1 { 40 } else { std::cmp::min(65536, pkg * 30) }),
            };
            let (pkg, size) = if rng.chance(1, 10) { (size, size) } else { (pkg, size) }; // package size = file
            transfers.push(Transfer {
                ecu: rng.below(3) as u8,
                lifecycle: 1 + rng.below(3) as u32,
                serial: if rng.chance(1, 3) { 7 } else { rng.u32() % 100_000 },
                name: names[rng.usize(names.len())].to_string(),
                data: rng.bytes(size),
                pkg,
                big_endian: rng.chance(1, 4),
                sint_pkg_nr: rng.bool(),
            });
            // one later transfer in four is a twin of the first: the same announcement (serial, name, size, package
            // size and count - the same file image sent by another ECU or again after a reboot), other content
            if i > 0 && rng.sub("twin").chance(1, 4) {
                let mut tw = rng.sub("twin-data");
                let first = transfers[0].clone();
                let t = &mut transfers[i];
                t.serial = first.serial;
                t.name = first.name.clone();
                t.pkg = first.pkg;
                t.data = tw.bytes(first.data.len());
                if (t.ecu, t.lifecycle) == (first.ecu, first.lifecycle) {
                    if tw.bool() {
                        t.ecu = (t.ecu + 1) % 3;
                    } else {
                        t.lifecycle += 1;
                    }
                }
            }
            // distinct (ecu, lifecycle, serial)
            while transfers[..i].iter().any(|o: &Transfer| (o.ecu, o.lifecycle, o.serial) == (transfers[i].ecu, transfers[i].lifecycle, transfers[i].serial)) {
                transfers[i].serial += 1;
            }
        }
        let il = rng.urange(0, 40);
        let interleave = (0..il).map(|_| rng.below(nt as u64 + 2) as u8).collect();
        let mut other_faults = vec![];
        for t in transfers.iter().skip(1) {
            let all = all_single_faults(t);
            other_faults.push(if rng.bool() { Fault::None } else { all[rng.usize(all.len())].clone() });
        }
        let mut preexisting = vec![];
        for t in &transfers {
            if rng.chance(1, 4) {
                if let Some(b) = base_name(&t.name) {
                    if !preexisting.contains(&b) {
                        preexisting.push(b);
                    }
                }
            }
        }
        let mut dangling_links = vec![];
        {
            let mut l = rng.sub("links");
            for t in &transfers {
                if l.chance(1, 5) {
                    if let Some(b) = base_name(&t.name) {
                        if !preexisting.contains(&b) && !dangling_links.contains(&b) {
                            dangling_links.push(b);
                        }
                    }
                }
            }
        }
        Case {
            transfers,
            interleave,
            allow_save: rng.chance(3, 4),
            keep_flda: rng.bool(),
            auto_save: rng.chance(2, 3),
            auto_save_glob: (*rng.pick(&["*", "**/*", "*.bin", "*.txt", "a/*"])).to_string(),
            preexisting,
            dangling_links,
            faults: vec![],
            other_faults,
        }
    }
    fn run(c: &Case, ctx: &mut Ctx) -> Result<(), Violation> {
        if c.transfers.is_empty() {
            return Ok(());
        }
        for (i, t) in c.transfers.iter().enumerate() {
            if t.pkg == 0 || t.data.is_empty() || t.data.len() > 70_000 || t.pkg > 65_000 {
                return Ok(());
            }
            if c.transfers[..i].iter().any(|o| (o.ecu, o.lifecycle, o.serial) == (t.ecu, t.lifecycle, t.serial)) {
                return Ok(());
            }
        }
        let faults = if c.faults.is_empty() { all_single_faults(&c.transfers[0]) } else { c.faults.clone() };
        ctx.sig.u64(c.transfers.len() as u64);
        for t in &c.transfers {
            ctx.sig.u64(t.data.len() as u64 ^ ((t.pkg as u64) << 24));
            ctx.sig.str(&t.name);
        }
        ctx.sig.u64(c.interleave.len() as u64);
        let mut r = Ok(());
        for f in faults.iter() {
            let k: &'static str = match f {
                Fault::None => "none",
                Fault::Drop(_) => "drop_package",
                Fault::DupAdjacent(_) => "duplicate_adjacent",
                Fault::DupDelayed(_, _) => "duplicate_delayed",
                Fault::Swap(_) => "swap_packages",
                Fault::Resize(_, _) => "resize_package",
                Fault::DropFlst => "drop_announcement",
                Fault::DropFlfi => "drop_end_marker",
                Fault::DupFlst(_) => "duplicate_announcement",
                Fault::DupFlfi => "duplicate_end_marker",
            };
            ctx.cfg(k);
            ctx.fired(k);
            ctx.evals += 1;
            ctx.event(&format!("{:?}", f));
            r = run_one(c, f, ctx);
            if let Err(v) = &r {
                r = Err(Violation::new(v.class.clone(), format!("[fault on transfer#0: {:?}] {}", f, v.detail)));
                break;
            }
        }
        if std::env::var("VERIF_KEEP").is_err() {
            let _ = std::fs::remove_dir_all(root_dir());
        }
        ctx.sim_time(1_000_000 * faults.len() as u128);
        if c.transfers.len() > 1 {
            ctx.probe("concurrent_transfers");
            let f = &c.transfers[0];
            if c.transfers[1..].iter().any(|t| (t.serial, &t.name, t.data.len(), t.pkg) == (f.serial, &f.name, f.data.len(), f.pkg)) {
                ctx.probe("twin_announcement_from_other_ecu_or_lifecycle");
            }
        }
        if c.auto_save {
            ctx.probe("auto_save_enabled");
        }
        if !c.preexisting.is_empty() {
            ctx.probe("preexisting_file_in_autosave_dir");
        }
        ctx.nontrivial = true;
        r
    }
    fn shrink(c: &Case) -> Vec<Case> {
        let mut out = vec![];
        // first pin the fault list to the failing fault by trying single faults
        if c.faults.is_empty() {
            for f in all_single_faults(&c.transfers[0]) {
                out.push(Case { faults: vec![f], ..c.clone() });
            }
        }
        if c.transfers.len() > 1 {
            for i in 1..c.transfers.len() {
                let mut t = c.transfers.clone();
                t.remove(i);
                out.push(Case { transfers: t, ..c.clone() });
            }
        }
        if !c.interleave.is_empty() {
            out.push(Case { interleave: vec![], ..c.clone() });
            for il in shrink_vec(&c.interleave) {
                out.push(Case { interleave: il, ..c.clone() });
            }
        }
        if c.auto_save {
            out.push(Case { auto_save: false, ..c.clone() });
        }
        if !c.preexisting.is_empty() {
            out.push(Case { preexisting: vec![], ..c.clone() });
        }
        let t0 = &c.transfers[0];
        if t0.data.len() > t0.pkg * 3 {
            let mut t = c.transfers.clone();
            t[0].data.truncate(t0.pkg * 3 - 1);
            out.push(Case { transfers: t, faults: vec![], ..c.clone() });
        }
        if t0.pkg > 10 {
            let mut t = c.transfers.clone();
            let n = n_packages(t0);
            t[0].pkg = 10;
            t[0].data.truncate(std::cmp::min(t0.data.len(), 10 * n));
            out.push(Case { transfers: t, faults: vec![], ..c.clone() });
        }
        out
    }
    fn finding_key(_c: &Case, v: &Violation) -> Option<String> {
        if v.class == "duplicate-of-non-last-package-not-tolerated" {
            Some("C17-duplicate-non-last-package".into())
        } else {
            None
        }
    }
    fn rule() -> &'static str {
        "one run = one transfer configuration (1-3 concurrent senders with distinct ECU/lifecycle/serial (a later sender in four announces exactly what the first one does - same serial, name, size, package size - from another ECU or lifecycle, with other content), file sizes {1, b-1, b, b+1, k*b, random <= 64 KiB} x package sizes {1, 7, 10, 64, 1024, 4096, = file}, both byte orders, SINT/UINT package numbers, file names with directory parts, interleaving with unrelated traffic, auto-save directory pre-seeded with same base names as regular files or as dangling symbolic links pointing outside) for which EVERY single fault on the first transfer is enumerated (none, drop/duplicate adjacent/duplicate delayed/swap/resize of every package up to 24 packages, else 7 representative positions; drop announcement; drop end marker; duplicate announcement adjacent/delayed; duplicate end marker) while the other transfers carry a random single fault; complete transfers are saved manually (a third of them over an older, longer file at the target path) and compared; each (configuration, fault) is one evaluation; distinct = hash of the configuration"
    }
    fn assumptions() -> Vec<&'static str> {
        vec![
            "with the announcement dropped only the safety half is demanded (never complete with wrong content); with the end marker dropped and all packages in order completeness is demanded",
            "completion is read from the plugin's published state (tree item icon/label), content through the plugin's own save command and auto-save files",
            "the announcement always carries the true file size, package count and package size",
        ]
    }
    fn real_components() -> Vec<&'static str> {
        vec!["adlt::plugins::file_transfer::FileTransferPlugin (via factory::get_plugin, process_msg, state, apply_command)", "adlt::dlt argument iterator"]
    }
    fn stub_components() -> Vec<&'static str> {
        vec!["senders and transport (generator)", "file system = real fs inside a per-run sandbox with canary parent"]
    }
    fn required_reach() -> Vec<&'static str> {
        vec!["drop_package", "duplicate_adjacent", "swap_packages", "resize_package", "drop_announcement", "drop_end_marker", "concurrent_transfers", "twin_announcement_from_other_ecu_or_lifecycle", "manual_saves_compared", "auto_saves_compared", "preexisting_file_in_autosave_dir", "dangling_symlink_in_autosave_dir", "duplicate_announcement", "duplicate_end_marker"]
    }
}
