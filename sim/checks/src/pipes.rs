//! E3 `pipesim`: the real stage functions as shuttle threads over bounded channels, wired like
//! convert.rs wires them (each stage sends with `sync_sender_send_delay_if_full`).

use crate::fw::{Ctx, Violation};
use crate::lc::{LcInfo, NoHash};
use crate::rng::Rng;
use crate::sh::{self, SchedCfg};
use adlt::dlt::DltMessage;
use adlt::filter::Filter;
use adlt::lifecycle::{parse_lifecycles_buffered_from_stream, Lifecycle, LifecycleId};
use adlt::plugins::plugin::Plugin;
use adlt::utils::sync_sender_send_delay_if_full;
use adlt_verif_seam::std as sstd;
use serde::{Deserialize, Serialize};
use std::collections::{HashMap, HashSet};
use std::sync::atomic::{AtomicBool, AtomicUsize, Ordering};
use std::sync::{Arc, Mutex};

#[derive(Clone, Debug, Serialize, Deserialize, Default)]
pub struct PipeCfg {
    pub sort: Option<(u8, u64)>,
    /// json filter definitions; empty = no filter stage
    pub filters: Vec<String>,
    /// json plugin configs; empty = no plugin stage
    pub plugins: Vec<String>,
    /// (position, number of switch points) at which the producer stalls
    pub producer_stalls: Vec<(usize, usize)>,
    pub consumer_stalls: Vec<(usize, usize)>,
    /// the consumer disappears after receiving this many messages
    pub consumer_drop_after: Option<usize>,
    pub poller: bool,
}

impl PipeCfg {
    pub fn gen_pacing(rng: &mut Rng, n: usize) -> (Vec<(usize, usize)>, Vec<(usize, usize)>) {
        let mut p = vec![];
        let mut c = vec![];
        let np = rng.usize(4);
        for _ in 0..np {
            p.push((rng.usize(n + 1), rng.urange(1, 30)));
        }
        let nc = rng.usize(5);
        for _ in 0..nc {
            c.push((rng.usize(n + 1), rng.urange(1, 60)));
        }
        (p, c)
    }
}

#[derive(Clone, Debug, Default)]
pub struct PipeOut {
    pub delivered: Vec<DltMessage>,
    pub table: Vec<LcInfo>,
    /// C06 (1): (index, lifecycle) of messages whose lifecycle was not visible/with wrong ecu at the
    /// lifecycle stage's delivery point (same thread as the writer)
    pub invisible_at_stage: Vec<(u32, LifecycleId)>,
    /// C06 (2): same, observed by the consumer thread on receipt (only when it directly follows the lifecycle stage or stages that keep the id)
    pub invisible_at_consumer: Vec<(u32, LifecycleId)>,
    /// C06 (3): lifecycle ids referenced by delivered messages that a polling reader found missing
    pub disappeared: Vec<LifecycleId>,
    pub polls: usize,
    pub filter_result: Option<Result<(usize, usize), String>>,
    pub sort_result: Option<bool>,
    pub plugin_result: Option<bool>,
    pub producer_sent: usize,
    pub producer_err: bool,
    pub lc_stage_delivered: usize,
}

pub fn build_filters(defs: &[String]) -> Vec<Filter> {
    defs.iter().filter_map(|d| Filter::from_json(d).ok()).collect()
}

pub fn build_plugins(defs: &[String]) -> Vec<Box<dyn Plugin + Send>> {
    let mut eac = adlt::utils::eac_stats::EacStats::default();
    defs.iter()
        .filter_map(|d| {
            let v: serde_json::Value = serde_json::from_str(d).ok()?;
            adlt::plugins::factory::get_plugin(v.as_object()?, &mut eac)
        })
        .collect()
}

pub fn snapshot_table(lcs_r: &adlt::lifecycle::LcsRType) -> Vec<LcInfo> {
    let mut t: Vec<LcInfo> = vec![];
    if let Some(rd) = lcs_r.read() {
        for (_, b) in rd.iter() {
            let lc: &Lifecycle = b.get_one().unwrap();
            t.push(LcInfo {
                id: lc.id(),
                ecu: *lc.ecu.as_buf(),
                nr_msgs: lc.nr_msgs,
                start: lc.start_time,
                end: lc.end_time(),
                resume_start: lc.resume_start_time(),
                is_resume: lc.is_resume(),
                resumes: lc.verif_resumed_lc_id(),
                merged: lc.was_merged().is_some(),
                only_control_requests: lc.only_control_requests(),
            });
        }
    }
    t.sort_by_key(|l| l.id);
    t
}

fn stall(n: usize) {
    for _ in 0..n {
        sstd::thread::sleep(std::time::Duration::from_millis(0));
    }
}

/// run the threaded pipeline inside one shuttle execution
pub fn run_pipeline(msgs: Vec<DltMessage>, cfg: &PipeCfg, sched: &SchedCfg, ctx: &mut Ctx) -> Result<PipeOut, Violation> {
    crate::lc::align_lc_ids();
    let out = sh::slot(PipeOut::default());
    let out2 = out.clone();
    let msgs = Arc::new(msgs);
    let cfg = cfg.clone();
    sh::run(sched, ctx, move || {
        let cfg = cfg.clone();
        let (lcs_r, lcs_w) = evmap::Options::default()
            .with_hasher(NoHash::default())
            .construct::<LifecycleId, Lifecycle>();
        let (tx0, rx0) = sstd::sync::mpsc::sync_channel::<DltMessage>(1024 * 1024);
        let (tx1, rx1) = sstd::sync::mpsc::sync_channel::<DltMessage>(512 * 1024);

        let delivered_lcs: Arc<Mutex<HashSet<LifecycleId>>> = Arc::new(Mutex::new(HashSet::new()));
        let inv_stage: Arc<Mutex<Vec<(u32, LifecycleId)>>> = Arc::new(Mutex::new(vec![]));
        let stage_cnt = Arc::new(AtomicUsize::new(0));

        // lifecycle stage
        let lc_thread = {
            let lcs_r = lcs_r.clone();
            let delivered_lcs = delivered_lcs.clone();
            let inv_stage = inv_stage.clone();
            let stage_cnt = stage_cnt.clone();
            sstd::thread::spawn(move || {
                parse_lifecycles_buffered_from_stream(lcs_w, rx0, &|m: DltMessage| {
                    // delivery point: the lifecycle must be visible to readers now
                    let ok = match lcs_r.get_one(&m.lifecycle) {
                        Some(l) => l.ecu == m.ecu,
                        None => false,
                    };
                    if !ok {
                        inv_stage.lock().unwrap().push((m.index, m.lifecycle));
                    }
                    delivered_lcs.lock().unwrap().insert(m.lifecycle);
                    stage_cnt.fetch_add(1, Ordering::SeqCst);
                    sync_sender_send_delay_if_full(m, &tx1)
                })
            })
        };

        // plugin stage
        let (plugin_thread, rx_after_plugins) = if !cfg.plugins.is_empty() {
            let plugins = build_plugins(&cfg.plugins);
            let (tx2, rx2) = sstd::sync::mpsc::sync_channel::<DltMessage>(512 * 1024);
            (
                Some(sstd::thread::spawn(move || {
                    adlt::plugins::plugins_process_msgs(rx1, &|m| sync_sender_send_delay_if_full(m, &tx2), plugins).is_ok()
                })),
                rx2,
            )
        } else {
            (None, rx1)
        };

        // sort stage
        let (sort_thread, rx_after_sort) = if let Some((win, min_delay)) = cfg.sort {
            let lcs_r = lcs_r.clone();
            let (tx3, rx3) = sstd::sync::mpsc::sync_channel::<DltMessage>(512 * 1024);
            (
                Some(sstd::thread::spawn(move || {
                    adlt::utils::buffer_sort_messages(rx_after_plugins, &|m| sync_sender_send_delay_if_full(m, &tx3), &lcs_r, win, min_delay).is_ok()
                })),
                rx3,
            )
        } else {
            (None, rx_after_plugins)
        };

        // filter stage
        let (filter_thread, rx_final) = if !cfg.filters.is_empty() {
            let filters = build_filters(&cfg.filters);
            let (tx4, rx4) = sstd::sync::mpsc::sync_channel::<DltMessage>(256 * 1024);
            (
                Some(sstd::thread::spawn(move || {
                    adlt::filter::functions::filter_as_streams(&filters, &rx_after_sort, &|m| sync_sender_send_delay_if_full(m, &tx4))
                        .map_err(|e| e.to_string())
                })),
                rx4,
            )
        } else {
            (None, rx_after_sort)
        };

        // consumer
        let consumer = {
            let lcs_r = lcs_r.clone();
            let stalls = cfg.consumer_stalls.clone();
            let drop_after = cfg.consumer_drop_after;
            sstd::thread::spawn(move || {
                let mut got: Vec<DltMessage> = vec![];
                let mut inv: Vec<(u32, LifecycleId)> = vec![];
                if drop_after == Some(0) {
                    return (got, inv);
                }
                for m in rx_final.iter() {
                    let ok = match lcs_r.get_one(&m.lifecycle) {
                        Some(l) => l.ecu == m.ecu,
                        None => false,
                    };
                    if !ok {
                        inv.push((m.index, m.lifecycle));
                    }
                    got.push(m);
                    for (p, n) in stalls.iter() {
                        if *p == got.len() {
                            stall(*n);
                        }
                    }
                    if Some(got.len()) == drop_after {
                        break; // the consumer disappears (rx dropped)
                    }
                }
                (got, inv)
            })
        };

        // polling reader
        let done = Arc::new(AtomicBool::new(false));
        let poller = if cfg.poller {
            let lcs_r = lcs_r.clone();
            let delivered_lcs = delivered_lcs.clone();
            let done = done.clone();
            Some(sstd::thread::spawn(move || {
                let mut missing: Vec<LifecycleId> = vec![];
                let mut polls = 0usize;
                while !done.load(Ordering::SeqCst) && polls < 300 {
                    polls += 1;
                    {
                        let want: Vec<LifecycleId> = delivered_lcs.lock().unwrap().iter().copied().collect();
                        if let Some(rd) = lcs_r.read() {
                            for id in want {
                                if rd.get_one(&id).is_none() && !missing.contains(&id) {
                                    missing.push(id);
                                }
                            }
                        }
                    }
                    sstd::thread::sleep(std::time::Duration::from_millis(1));
                }
                (missing, polls)
            }))
        } else {
            None
        };

        // producer
        let producer = {
            let msgs = msgs.clone();
            let stalls = cfg.producer_stalls.clone();
            sstd::thread::spawn(move || {
                let mut sent = 0usize;
                for m in msgs.iter() {
                    for (p, n) in stalls.iter() {
                        if *p == sent {
                            stall(*n);
                        }
                    }
                    if sync_sender_send_delay_if_full(m.clone(), &tx0).is_err() {
                        return (sent, true);
                    }
                    sent += 1;
                }
                (sent, false)
            })
        };

        let (sent, perr) = producer.join().unwrap();
        let lcs_w = lc_thread.join().unwrap(); // keep the write handle alive until all lookups are done
        let plugin_ok = plugin_thread.map(|t| t.join().unwrap());
        let sort_ok = sort_thread.map(|t| t.join().unwrap());
        let filter_res = filter_thread.map(|t| t.join().unwrap());
        let (got, inv_c) = consumer.join().unwrap();
        done.store(true, Ordering::SeqCst);
        let (missing, polls) = poller.map(|t| t.join().unwrap()).unwrap_or((vec![], 0));
        let table = snapshot_table(&lcs_r);
        let mut o = out2.lock().unwrap();
        o.delivered = got;
        o.table = table;
        o.invisible_at_stage = inv_stage.lock().unwrap().clone();
        o.invisible_at_consumer = inv_c;
        o.disappeared = missing;
        o.polls = polls;
        o.filter_result = filter_res;
        o.sort_result = sort_ok;
        o.plugin_result = plugin_ok;
        o.producer_sent = sent;
        o.producer_err = perr;
        o.lc_stage_delivered = stage_cnt.load(Ordering::SeqCst);
        drop(lcs_w);
    })?;
    let r = out.lock().unwrap().clone();
    Ok(r)
}

/// reference: the same stages run to completion one after the other over unbounded channels
pub fn run_reference(msgs: Vec<DltMessage>, cfg: &PipeCfg, ctx: &mut Ctx) -> Result<PipeOut, Violation> {
    crate::lc::align_lc_ids();
    let out = sh::slot(PipeOut::default());
    let out2 = out.clone();
    let msgs = Arc::new(msgs);
    let cfg = cfg.clone();
    let mut sched = SchedCfg::simple();
    sched.max_steps = 20_000_000;
    sh::run(&sched, ctx, move || {
        let (lcs_r, lcs_w) = evmap::Options::default()
            .with_hasher(NoHash::default())
            .construct::<LifecycleId, Lifecycle>();
        let cur = std::cell::RefCell::new(Vec::<DltMessage>::new());
        let (tx, rx) = sstd::sync::mpsc::channel();
        for m in msgs.iter() {
            tx.send(m.clone()).unwrap();
        }
        drop(tx);
        let lcs_w = parse_lifecycles_buffered_from_stream(lcs_w, rx, &|m: DltMessage| {
            cur.borrow_mut().push(m);
            Ok(())
        });
        let mut o = out2.lock().unwrap();
        o.lc_stage_delivered = cur.borrow().len();
        if !cfg.plugins.is_empty() {
            let plugins = build_plugins(&cfg.plugins);
            let input = std::mem::take(&mut *cur.borrow_mut());
            let (tx, rx) = sstd::sync::mpsc::channel();
            for m in input {
                tx.send(m).unwrap();
            }
            drop(tx);
            let r = adlt::plugins::plugins_process_msgs(rx, &|m| { cur.borrow_mut().push(m); Ok(()) }, plugins);
            o.plugin_result = Some(r.is_ok());
        }
        if let Some((win, min_delay)) = cfg.sort {
            let input = std::mem::take(&mut *cur.borrow_mut());
            let (tx, rx) = sstd::sync::mpsc::channel();
            for m in input {
                tx.send(m).unwrap();
            }
            drop(tx);
            let r = adlt::utils::buffer_sort_messages(rx, &|m| { cur.borrow_mut().push(m); Ok(()) }, &lcs_r, win, min_delay);
            o.sort_result = Some(r.is_ok());
        }
        if !cfg.filters.is_empty() {
            let filters = build_filters(&cfg.filters);
            let input = std::mem::take(&mut *cur.borrow_mut());
            let (tx, rx) = sstd::sync::mpsc::channel();
            for m in input {
                tx.send(m).unwrap();
            }
            drop(tx);
            let r = adlt::filter::functions::filter_as_streams(&filters, &rx, &|m| { cur.borrow_mut().push(m); Ok(()) });
            o.filter_result = Some(r.map_err(|e| e.to_string()));
        }
        o.delivered = std::mem::take(&mut *cur.borrow_mut());
        o.table = snapshot_table(&lcs_r);
        drop(lcs_w);
    })?;
    let r = out.lock().unwrap().clone();
    Ok(r)
}

/// rename lifecycle ids by rank of first appearance in the delivered sequence
pub fn canonical_ids(delivered: &[DltMessage]) -> HashMap<LifecycleId, u32> {
    let mut m = HashMap::new();
    for d in delivered {
        let n = m.len() as u32 + 1;
        m.entry(d.lifecycle).or_insert(n);
    }
    m
}
