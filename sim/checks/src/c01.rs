//! C01 — DLT framing: complete, faithful recovery of messages between garbage (engine E1)

use crate::fw::{shrink_vec, Check, Ctx, Tier, Violation};
use crate::gen_dlt::*;
use crate::rng::Rng;
use crate::scripted::{gen_sched, Sched, ScriptedSource};
use crate::viol;
use adlt::dlt::{DltMessage, DLT_MSG_PARSER_LOW_MARK};
use adlt::utils::{DltMessageIterator, LowMarkBufReader};
use serde::{Deserialize, Serialize};
use std::sync::Arc;

#[derive(Clone, Debug, Serialize, Deserialize)]
pub enum ReaderCfg {
    Slice,
    Cursor,
    LowMark { cap_extra: usize, sched: Sched },
}

#[derive(Clone, Debug, Serialize, Deserialize)]
pub struct Case {
    pub framing: Framing,
    pub start_index: u32,
    pub items: Vec<Item>,
    pub readers: Vec<ReaderCfg>,
}

pub struct IterResult {
    pub msgs: Vec<DltMessage>,
    pub processed: usize,
    pub skipped: usize,
    pub det_storage: bool,
    pub det_serial: bool,
    pub short_reads: u64,
    pub reads: u64,
}

pub fn gen_reader(rng: &mut Rng) -> ReaderCfg {
    match rng.below(8) {
        0 => ReaderCfg::Slice,
        1 => ReaderCfg::Cursor,
        _ => ReaderCfg::LowMark {
            cap_extra: *rng.pick(&[4096usize, 4097, 8192, 4096 + 61, 128 * 1024 - 65551, 512 * 1024 - 65551]),
            sched: gen_sched(rng),
        },
    }
}

/// run the real iterator over the image with the given reader configuration
pub fn iterate(img: &Arc<Vec<u8>>, bounds: &Arc<Vec<usize>>, start_index: u32, r: &ReaderCfg) -> IterResult {
    fn drain<R: std::io::BufRead>(it: &mut DltMessageIterator<R>) -> Vec<DltMessage> {
        let mut v = vec![];
        for m in it.by_ref() {
            v.push(m);
        }
        v
    }
    match r {
        ReaderCfg::Slice => {
            let mut it = DltMessageIterator::new(start_index, &img[..]);
            let msgs = drain(&mut it);
            IterResult {
                msgs,
                processed: it.bytes_processed,
                skipped: it.bytes_skipped,
                det_storage: it.detected_storage_header,
                det_serial: it.detected_serial_header,
                short_reads: 0,
                reads: 0,
            }
        }
        ReaderCfg::Cursor => {
            let mut it = DltMessageIterator::new(start_index, std::io::Cursor::new(&img[..]));
            let msgs = drain(&mut it);
            IterResult {
                msgs,
                processed: it.bytes_processed,
                skipped: it.bytes_skipped,
                det_storage: it.detected_storage_header,
                det_serial: it.detected_serial_header,
                short_reads: 0,
                reads: 0,
            }
        }
        ReaderCfg::LowMark { cap_extra, sched } => {
            let src = ScriptedSource::new(img.clone(), sched.clone(), bounds.clone());
            let counts = src.counts.clone();
            let mut rd = LowMarkBufReader::new(
                src,
                DLT_MSG_PARSER_LOW_MARK + cap_extra,
                DLT_MSG_PARSER_LOW_MARK,
            );
            let (msgs, p, s, a, b) = {
                let mut it = DltMessageIterator::new(start_index, &mut rd);
                let msgs = drain(&mut it);
                (
                    msgs,
                    it.bytes_processed,
                    it.bytes_skipped,
                    it.detected_storage_header,
                    it.detected_serial_header,
                )
            };
            let src = counts.get();
            IterResult {
                msgs,
                processed: p,
                skipped: s,
                det_storage: a,
                det_serial: b,
                short_reads: src.1,
                reads: src.0,
            }
        }
    }
}

pub fn gen_items(rng: &mut Rng, tier: Tier, idx: u64, marker_free: bool) -> (Framing, Vec<Item>) {
    let framing = if rng.bool() {
        Framing::Storage
    } else {
        Framing::Serial
    };
    let n = match rng.weighted(&[5, 20, 50, 25]) {
        0 => 0,
        1 => rng.urange(1, 3),
        2 => rng.urange(4, 15),
        _ => rng.urange(16, tier.pick(40, 60)),
    };
    let mut items = vec![];
    let mut big = 0;
    let allow_long = rng.chance(1, 6);
    let l = gen_noise_len(rng, allow_long);
    if l > 0 {
        items.push(Item::Noise(gen_noise(rng, l)));
    }
    for k in 0..n {
        // the first 32 runs of a batch walk through all flag combinations
        let flags = if idx < 32 && k == 0 {
            Some(idx as u8)
        } else if rng.chance(1, 3) {
            Some((k as u8).wrapping_add(idx as u8) & 0x1f)
        } else {
            None
        };
        let mut sc = gen_size_class(rng);
        if sc >= 4 {
            big += 1;
            if big > 3 {
                sc = 2;
            }
        }
        items.push(Item::Msg(gen_msg(rng, flags, sc)));
        let al = allow_long && rng.chance(1, 8);
        let l = gen_noise_len(rng, al);
        if l > 0 {
            items.push(Item::Noise(gen_noise(rng, l)));
        }
    }
    if marker_free {
        // enforce the precondition: markers only at message starts (deterministic repair loop)
        for _round in 0..50 {
            let img = assemble(&items, framing);
            if markers_only_at_starts(&img) {
                break;
            }
            let starts: std::collections::HashSet<usize> = img.msgs.iter().map(|m| m.0).collect();
            let bad: Vec<usize> = marker_positions(&img.bytes)
                .into_iter()
                .filter(|p| !starts.contains(p))
                .collect();
            // also: the own marker at a start is required; the *other* marker at a start cannot happen
            // repair: regenerate the item that contains byte p+3 (the 0x01) of each bad marker
            let mut off = 0usize;
            let mut spans = vec![];
            for it in items.iter() {
                let l = match it {
                    Item::Msg(m) => m.encoded_len(framing),
                    Item::Noise(n) => n.len(),
                };
                spans.push((off, off + l));
                off += l;
            }
            for p in bad {
                let q = p + 3;
                if let Some(i) = spans.iter().position(|(a, b)| q >= *a && q < *b) {
                    match &mut items[i] {
                        Item::Noise(nz) => {
                            let k = q - spans[i].0;
                            nz[k] = 2;
                        }
                        Item::Msg(m) => {
                            // regenerate the variable parts with plain values
                            let l = m.payload.len();
                            m.payload = vec![b'p'; l];
                            m.mcnt = 7;
                            m.ecu = *b"ECU1";
                            m.st_ecu = *b"ECU1";
                            m.sid = 0x11223344;
                            if m.ts & 0xff == 1 || (m.ts >> 8) & 0xff == 1 {
                                m.ts = 0x10203040;
                            }
                            m.secs &= 0xfefe_fefe;
                            m.micros = (m.micros & 0x000e_fefe) % 1_000_000;
                            if let Some(e) = m.ext.as_mut() {
                                e.apid = *b"APID";
                                e.ctid = *b"CTID";
                                if e.noar == 1 {
                                    e.noar = 2;
                                }
                                if e.mstp == 1 {
                                    e.mstp = 0x41;
                                }
                            }
                        }
                    }
                }
            }
        }
    }
    (framing, items)
}

pub struct C01;
impl Check for C01 {
    type Case = Case;
    const ID: &'static str = "C01";
    fn runs(t: Tier) -> u64 {
        t.pick(100_000, 3_000_000)
    }
    fn generate(rng: &mut Rng, tier: Tier, idx: u64) -> Case {
        let mut wl = rng.sub("workload");
        let (framing, items) = gen_items(&mut wl, tier, idx, true);
        let nmsg = items.iter().filter(|i| matches!(i, Item::Msg(_))).count() as u32;
        let mut k = rng.sub("knobs");
        let start_index = match k.below(5) {
            0 => 0,
            1 => 1,
            2 => k.u32() % (u32::MAX - nmsg - 1),
            // the last message gets exactly the largest index
            3 => u32::MAX - nmsg.saturating_sub(1),
            _ => u32::MAX - nmsg - 1 - k.below(3) as u32,
        };
        let mut rs = rng.sub("readers");
        let mut readers = vec![ReaderCfg::Slice];
        for _ in 0..2 {
            readers.push(gen_reader(&mut rs));
        }
        Case {
            framing,
            start_index,
            items,
            readers,
        }
    }

    fn run(c: &Case, ctx: &mut Ctx) -> Result<(), Violation> {
        let img = assemble(&c.items, c.framing);
        if !markers_only_at_starts(&img) {
            return Ok(()); // outside the statement's precondition (only reachable by shrinking)
        }
        let specs: Vec<&MsgSpec> = c
            .items
            .iter()
            .filter_map(|i| match i {
                Item::Msg(m) => Some(m),
                _ => None,
            })
            .collect();
        if (c.start_index as u64) + (specs.len() as u64) > u32::MAX as u64 + 1 {
            return Ok(()); // the numbering would not be representable
        }
        if !specs.is_empty() && (c.start_index as u64) + (specs.len() as u64) == u32::MAX as u64 + 1 {
            ctx.probe("last_index_is_u32_max");
        }
        let bounds: Arc<Vec<usize>> = Arc::new(img.msgs.iter().map(|(o, l)| o + l).collect());
        let bytes = Arc::new(img.bytes);
        let n_noise_runs = c.items.iter().filter(|i| matches!(i, Item::Noise(_))).count();
        ctx.sig.u64(c.framing as u64);
        ctx.sig.u64(specs.len() as u64);
        ctx.sig.u64(bytes.len() as u64);
        ctx.sig.u64(crate::rng::fnv1a(&bytes[..std::cmp::min(bytes.len(), 4096)]));
        ctx.cfg("noise_runs");
        ctx.fired_n("noise_runs", n_noise_runs as u64);
        if c.items.iter().any(|i| matches!(i, Item::Noise(n) if n.len() > 65551)) {
            ctx.fired("noise_longer_than_low_mark");
        }
        for m in &specs {
            if m.payload.len() >= 65000 {
                ctx.probe("near_max_payload");
            }
        }
        ctx.sim_time(bytes.len() as u128); // one "byte time" per byte (no clock in this engine)
        for (ri, r) in c.readers.iter().enumerate() {
            ctx.cfg("short_reads");
            let res = iterate(&bytes, &bounds, c.start_index, r);
            ctx.fired_n("short_reads", res.short_reads);
            ctx.event_u64(res.msgs.len() as u64);
            ctx.event_u64(res.processed as u64);
            ctx.event_u64(res.skipped as u64);
            let tag = format!("reader#{}", ri);
            // (1)+(2) messages == ground truth, indices consecutive
            for (k, m) in res.msgs.iter().enumerate() {
                if k >= specs.len() {
                    viol!("extra-message", "{}: message {} beyond the {} generated", tag, k, specs.len());
                }
                if let Some(d) = specs[k].diff(c.framing, c.start_index + k as u32, m) {
                    viol!("wrong-message", "{}: message {}: {}", tag, k, d);
                }
            }
            if res.msgs.len() < specs.len() {
                let tail = bytes.len() - img.msgs[res.msgs.len()].0;
                let cls = if c.framing == Framing::Serial
                    && res.msgs.is_empty()
                    && tail < 20
                {
                    "lost-message:first-serial-msg-within-last-20-bytes"
                } else {
                    "lost-message"
                };
                viol!(
                    cls,
                    "{}: {} of {} messages found; first missing starts {} bytes before the end",
                    tag,
                    res.msgs.len(),
                    specs.len(),
                    tail
                );
            }
            // (3) counters
            if res.processed > bytes.len() {
                viol!("processed-exceeds-input", "{}: {} > {}", tag, res.processed, bytes.len());
            }
            let u = bytes.len() - res.processed;
            let minm = if specs.is_empty() { 20 } else { c.framing.min_msg() };
            if u >= minm {
                viol!("unconsumed-tail-too-long", "{}: {} bytes unconsumed (min msg {})", tag, u, minm);
            }
            if u > img.trailing_noise {
                viol!("unconsumed-tail-not-noise", "{}: {} unconsumed > trailing noise {}", tag, u, img.trailing_noise);
            }
            if res.skipped + u != img.noise_total {
                viol!(
                    "skipped-count",
                    "{}: skipped {} + unconsumed {} != noise {}",
                    tag,
                    res.skipped,
                    u,
                    img.noise_total
                );
            }
            // (4) latched framing
            if !specs.is_empty() {
                let ok = match c.framing {
                    Framing::Storage => res.det_storage && !res.det_serial,
                    Framing::Serial => res.det_serial && !res.det_storage,
                };
                if !ok {
                    viol!("framing-flag", "{}: storage={} serial={}", tag, res.det_storage, res.det_serial);
                }
            }
        }
        if n_noise_runs > 0 || specs.len() > 1 {
            ctx.nontrivial = true;
        }
        Ok(())
    }

    fn shrink(c: &Case) -> Vec<Case> {
        let mut out = vec![];
        for items in shrink_vec(&c.items) {
            out.push(Case { items, ..c.clone() });
        }
        if c.readers.len() > 1 {
            for i in 0..c.readers.len() {
                let mut r = c.readers.clone();
                r.remove(i);
                out.push(Case { readers: r, ..c.clone() });
            }
        }
        if c.start_index != 0 {
            out.push(Case { start_index: 0, ..c.clone() });
        }
        for (i, it) in c.items.iter().enumerate() {
            match it {
                Item::Msg(m) if m.payload.len() > 1 => {
                    let mut m2 = m.clone();
                    m2.payload.truncate(m.payload.len() / 2);
                    let mut items = c.items.clone();
                    items[i] = Item::Msg(m2);
                    out.push(Case { items, ..c.clone() });
                }
                Item::Noise(n) if n.len() > 1 => {
                    let mut items = c.items.clone();
                    items[i] = Item::Noise(n[..n.len() / 2].to_vec());
                    out.push(Case { items, ..c.clone() });
                }
                _ => {}
            }
        }
        for (i, r) in c.readers.iter().enumerate() {
            if let ReaderCfg::LowMark { cap_extra, sched } = r {
                if !matches!(sched, Sched::All) {
                    let mut rs = c.readers.clone();
                    rs[i] = ReaderCfg::LowMark { cap_extra: *cap_extra, sched: Sched::All };
                    out.push(Case { readers: rs, ..c.clone() });
                }
            }
        }
        out
    }

    fn finding_key(_c: &Case, v: &Violation) -> Option<String> {
        if v.class == "lost-message:first-serial-msg-within-last-20-bytes" {
            Some("C01-tiny-serial-tail".into())
        } else {
            None
        }
    }

    fn rule() -> &'static str {
        "one run = one generated stream (framing, 0-60 messages over all header-flag combinations/byte orders/payload classes, marker-free noise runs) read through 3 reader configurations (slice, Cursor, LowMarkBufReader over a scripted short-read source); non-trivial = has a noise run or >1 message; distinct = hash of (framing, #messages, length, first 4 KiB)"
    }
    fn assumptions() -> Vec<&'static str> {
        vec![
            "the generator's framing of a message is the DLT wire format (independent encoder in gen_dlt.rs)",
            "I/O errors of the source are outside the quantifier and not injected",
        ]
    }
    fn real_components() -> Vec<&'static str> {
        vec![
            "adlt::utils::DltMessageIterator",
            "adlt::dlt::parse_dlt_with_storage_header/_serial_header",
            "adlt::utils::LowMarkBufReader",
        ]
    }
    fn stub_components() -> Vec<&'static str> {
        vec!["message producer and medium (generator)", "underlying reader (ScriptedSource)"]
    }
    fn required_reach() -> Vec<&'static str> {
        vec!["short_reads", "noise_runs", "near_max_payload"]
    }
}
