//! Lifecycle stage harness and the checks built on it: C05 (forwarding), C07 (final table), C08
//! (clean power cycles). The stage runs inside a shuttle execution because hook H1 routes its
//! channel type through the scheduler.

use crate::fw::{shrink_vec, Check, Ctx, Tier, Violation};
use crate::rng::Rng;
use crate::sh::{self, SchedCfg};
use crate::viol;
use crate::world::*;
use adlt::dlt::DltMessage;
use adlt::lifecycle::{get_sorted_lifecycles_as_vec, parse_lifecycles_buffered_from_stream, Lifecycle, LifecycleId};
use serde::{Deserialize, Serialize};
use std::collections::{BTreeMap, HashMap};

#[derive(Clone, Debug)]
pub struct LcInfo {
    pub id: LifecycleId,
    pub ecu: [u8; 4],
    pub nr_msgs: u32,
    pub start: u64,
    pub end: u64,
    pub resume_start: u64,
    pub is_resume: bool,
    pub resumes: Option<LifecycleId>,
    pub merged: bool,
    pub only_control_requests: bool,
}
fn info(lc: &Lifecycle) -> LcInfo {
    LcInfo {
        id: lc.id(),
        ecu: *lc.ecu.as_buf(),
        nr_msgs: lc.nr_msgs,
        start: lc.start_time,
        end: lc.end_time(),
        resume_start: lc.resume_start_time(),
        is_resume: lc.is_resume(),
        resumes: lc.verif_resumed_lc_id(),
        merged: lc.was_merged().is_some(),
        only_control_requests: lc.only_control_requests(),
    }
}

#[derive(Default, Clone, Debug)]
pub struct StageResult {
    pub out: Vec<DltMessage>,
    /// table after the (last) batch
    pub table: Vec<LcInfo>,
    /// ids in listing order, or the panic the listing died with
    pub listing: Option<Result<Vec<LifecycleId>, Violation>>,
    /// number of messages delivered when each batch ended
    pub batch_ends: Vec<usize>,
    /// per delivered message: was its lifecycle visible with the right ecu at delivery (same thread)
    pub visible_at_delivery: Vec<bool>,
}

pub type NoHash = nohash_hasher::BuildNoHashHasher<LifecycleId>;

/// run the real lifecycle stage over one or two batches (the second with the returned write
/// handle = pre-populated table); everything inside one shuttle execution
/// lifecycle ids come from a process-global counter and the evmap (nohash) iterates in an order
/// that depends on the ids' low bits; align the counter so that a run sees the same low bits in
/// every process (replay/shrink children included)
pub fn align_lc_ids() {
    let mut m = TMsg { ecu: 0, boot: 0, rx_us: 1, ts: 0, has_ts: false, kind: K_NOEXT, app: 0, mcnt: 0, n: 0, flags: 0 }.to_dlt(0);
    loop {
        let lc = Lifecycle::new(&mut m);
        if lc.id() % 1024 == 0 {
            break;
        }
    }
}

/// like align_lc_ids but returns the aligned value: ids of the following run are value+1, value+2, ...
pub fn align_lc_ids_get() -> u32 {
    let mut m = TMsg { ecu: 0, boot: 0, rx_us: 1, ts: 0, has_ts: false, kind: K_NOEXT, app: 0, mcnt: 0, n: 0, flags: 0 }.to_dlt(0);
    loop {
        let lc = Lifecycle::new(&mut m);
        if lc.id() % 1024 == 0 {
            return lc.id();
        }
    }
}

/// the value the next align_lc_ids_get() will return (consumes one id)
pub fn peek_next_aligned_base() -> u32 {
    let mut m = TMsg { ecu: 0, boot: 0, rx_us: 1, ts: 0, has_ts: false, kind: K_NOEXT, app: 0, mcnt: 0, n: 0, flags: 0 }.to_dlt(0);
    let id = Lifecycle::new(&mut m).id();
    (id / 1024 + 1) * 1024
}

pub fn run_stage(batches: Vec<Vec<DltMessage>>, ctx: &mut Ctx) -> Result<StageResult, Violation> {
    align_lc_ids();
    let res = sh::slot(StageResult::default());
    let res2 = res.clone();
    let batches = std::sync::Arc::new(batches);
    sh::run(&SchedCfg::simple(), ctx, move || {
        let (lcs_r, mut lcs_w) = evmap::Options::default()
            .with_hasher(NoHash::default())
            .construct::<LifecycleId, Lifecycle>();
        let out = std::cell::RefCell::new(Vec::<DltMessage>::new());
        let vis = std::cell::RefCell::new(Vec::<bool>::new());
        let mut ends = vec![];
        for b in batches.iter() {
            let (tx, rx) = adlt_verif_seam::std::sync::mpsc::channel();
            for m in b.iter() {
                tx.send(m.clone()).unwrap();
            }
            drop(tx);
            lcs_w = parse_lifecycles_buffered_from_stream(lcs_w, rx, &|m: DltMessage| {
                let ok = match lcs_r.get_one(&m.lifecycle) {
                    Some(l) => l.ecu == m.ecu,
                    None => false,
                };
                vis.borrow_mut().push(ok);
                out.borrow_mut().push(m);
                Ok(())
            });
            ends.push(out.borrow().len());
        }
        let mut r = res2.lock().unwrap();
        r.out = out.into_inner();
        r.visible_at_delivery = vis.into_inner();
        r.batch_ends = ends;
        if let Some(rd) = lcs_r.read() {
            r.table = rd.iter().map(|(_, b)| info(b.get_one().unwrap())).collect();
            r.table.sort_by_key(|l| l.id);
            let listing = crate::fw::catch(|| {
                get_sorted_lifecycles_as_vec(&rd)
                    .iter()
                    .map(|l| l.id())
                    .collect::<Vec<_>>()
            });
            r.listing = Some(listing);
        }
        drop(lcs_w);
    })?;
    let r = res.lock().unwrap().clone();
    Ok(r)
}

// ---------------------------------------------------------------------------------------------

#[derive(Clone, Debug, Serialize, Deserialize)]
pub struct TraceCase {
    pub trace: Vec<TMsg>,
    /// split point for a second batch processed with the returned write handle (0 = one batch)
    pub split: usize,
    #[serde(default)]
    pub knobs: WorldKnobs,
    /// how often each fault kind fired in the world generator (ground truth, not derivable from the trace)
    #[serde(default)]
    pub gen_fired: BTreeMap<String, u64>,
    /// lifecycle stage knob: regular refresh every n messages (0 = the code's 100 000)
    #[serde(default)]
    pub refresh_every: u32,
    /// index of the first message (indices near u32::MAX are legal inputs too)
    #[serde(default)]
    pub index_base: u32,
}

pub fn gen_trace_case(rng: &mut Rng, tier: Tier, bias_merge: bool) -> TraceCase {
    let mut k = rng.sub("knobs");
    let max_msgs = match k.weighted(&[30, 40, 25, 5]) {
        0 => k.urange(5, 20),
        1 => k.urange(20, 80),
        2 => k.urange(80, 200),
        _ => k.urange(200, tier.pick(400, 600)),
    };
    let mut knobs = WorldKnobs::gen(&mut k, max_msgs);
    if bias_merge {
        // shapes that confirm a lifecycle and merge it afterwards: several ECUs, short boots, spikes
        knobs.n_ecus = std::cmp::max(2, knobs.n_ecus);
        knobs.max_boots = std::cmp::max(3, knobs.max_boots);
        knobs.f_delay_spike = true;
        if k.bool() {
            knobs.f_suspend = true;
        }
    }
    let mut w = rng.sub("world");
    let (trace, st) = gen_world(&mut w, &knobs);
    let split = if k.chance(1, 5) && trace.len() > 2 { k.urange(1, trace.len() - 1) } else { 0 };
    let gen_fired = st.fired.iter().map(|(k, v)| (k.to_string(), *v)).collect();
    let refresh_every = *rng.sub("refresh").pick(&[0u32, 0, 0, 1, 2, 3, 7, 20, 100]);
    let index_base = match rng.sub("index_base").below(12) {
        0 => u32::MAX - (trace.len() as u32).saturating_sub(1),
        1 => u32::MAX - trace.len() as u32 - 50_000,
        _ => 0,
    };
    TraceCase { trace, split, knobs, gen_fired, refresh_every, index_base }
}

pub fn record_world(c: &TraceCase, ctx: &mut Ctx) {
    if c.index_base != 0 {
        ctx.probe("message_indices_near_u32_max");
    }
    if c.refresh_every != 0 {
        adlt_verif_seam::knobs::set_lc_regular_refresh_interval(c.refresh_every);
        ctx.probe("lc_regular_refresh_interval_shortened");
    }
    for f in c.knobs.fault_names() {
        ctx.cfg(f);
    }
    // fired = present in the trace by ground-truth flags / structure
    let mut dup = 0;
    let mut reo = 0;
    let mut tsc = 0;
    let mut spike = 0;
    let mut resume = 0;
    let mut creq = 0;
    let mut nots = 0;
    for m in &c.trace {
        if m.flags & F_DUP != 0 { dup += 1; }
        if m.flags & F_REORDER != 0 { reo += 1; }
        if m.flags & F_TS_CORRUPT != 0 { tsc += 1; }
        if m.flags & F_SPIKE != 0 { spike += 1; }
        if m.flags & F_AFTER_RESUME != 0 { resume += 1; }
        if m.kind == K_CTRL_REQ { creq += 1; }
        if !m.has_ts { nots += 1; }
    }
    ctx.fired_n("duplicate", dup);
    ctx.fired_n("reorder", reo);
    ctx.fired_n("timestamp_corruption", tsc);
    ctx.fired_n("delay_spike", spike);
    ctx.fired_n("suspend_resume", resume);
    ctx.fired_n("control_request", creq);
    ctx.fired_n("ecu_without_timestamps", nots);
    for (name, key) in [("drop", "drop"), ("logger_connected_late", "logger_connected_late"), ("recorder_clock_jump", "recorder_clock_jump"), ("coarse_recorder_clock", "coarse_recorder_clock")] {
        if let Some(n) = c.gen_fired.get(key) {
            ctx.fired_n(name, *n);
        }
    }
    let mut boots: BTreeMap<u8, std::collections::BTreeSet<u16>> = BTreeMap::new();
    let mut nonmono = 0;
    let mut last = 0;
    for m in &c.trace {
        boots.entry(m.ecu).or_default().insert(m.boot);
        if m.rx_us < last { nonmono += 1; }
        last = m.rx_us;
    }
    ctx.fired_n("reboot", boots.values().map(|b| b.len() as u64 - 1).sum());
    ctx.fired_n("non_monotonic_reception_time", nonmono);
    if c.split > 0 {
        ctx.cfg("prepopulated_table");
        ctx.fired("prepopulated_table");
    }
    if let (Some(a), Some(b)) = (c.trace.iter().map(|m| m.rx_us).min(), c.trace.iter().map(|m| m.rx_us).max()) {
        ctx.sim_time((b - a) as u128 * 1000);
    }
    ctx.sig.u64(c.trace.len() as u64);
    for m in c.trace.iter().take(64) {
        ctx.sig.u64(m.rx_us ^ ((m.ts as u64) << 20) ^ ((m.ecu as u64) << 60));
    }
}

pub fn batches_of(c: &TraceCase) -> Vec<Vec<DltMessage>> {
    let all = to_dlts(&c.trace, c.index_base);
    if c.split > 0 && c.split < all.len() {
        let (a, b) = all.split_at(c.split);
        vec![a.to_vec(), b.to_vec()]
    } else {
        vec![all]
    }
}

pub fn shrink_trace_case(c: &TraceCase) -> Vec<TraceCase> {
    let mut out = vec![];
    if c.split > 0 {
        out.push(TraceCase { split: 0, ..c.clone() });
    }
    for t in shrink_vec(&c.trace) {
        out.push(TraceCase { trace: t, split: 0, knobs: c.knobs.clone(), gen_fired: c.gen_fired.clone(), refresh_every: c.refresh_every, index_base: c.index_base });
    }
    // simplify single messages
    for (i, m) in c.trace.iter().enumerate().take(60) {
        if m.kind != K_LOG {
            let mut t = c.trace.clone();
            t[i].kind = K_LOG;
            out.push(TraceCase { trace: t, ..c.clone() });
        }
        if m.flags != 0 {
            let mut t = c.trace.clone();
            t[i].flags = 0;
            out.push(TraceCase { trace: t, ..c.clone() });
        }
    }
    // rebase times to small numbers (keeps differences)
    if let Some(minrx) = c.trace.iter().map(|m| m.rx_us).min() {
        let base = 200_000_000u64;
        if minrx > base + 1_000_000 {
            let mut t = c.trace.clone();
            for m in t.iter_mut() {
                m.rx_us = m.rx_us - minrx + base;
            }
            out.push(TraceCase { trace: t, ..c.clone() });
        }
    }
    out
}

fn check_forwarding(c: &TraceCase, r: &StageResult) -> Result<(), Violation> {
    let input = to_dlts(&c.trace, c.index_base);
    if r.out.len() != input.len() {
        viol!("forward-count", "{} messages in, {} out", input.len(), r.out.len());
    }
    let table: HashMap<LifecycleId, &LcInfo> = r.table.iter().map(|l| (l.id, l)).collect();
    for (i, (a, b)) in input.iter().zip(r.out.iter()).enumerate() {
        let mut b2 = b.clone();
        b2.lifecycle = 0;
        if *a != b2 {
            let what = if a.index != b.index { "order/index" } else { "content" };
            viol!("forward-changed", "position {}: {} differs (in index {}, out index {})", i, what, a.index, b.index);
        }
        if b.lifecycle == 0 {
            viol!("forward-unassigned", "position {}: message {} forwarded with lifecycle 0", i, b.index);
        }
        match table.get(&b.lifecycle) {
            None => viol!("forward-unknown-lifecycle", "position {}: lifecycle {} of message {} is not in the final table", i, b.lifecycle, b.index),
            Some(l) => {
                if &l.ecu != b.ecu.as_buf() {
                    viol!("forward-foreign-lifecycle", "position {}: message of ecu {:?} assigned to lifecycle {} of ecu {:?}", i, b.ecu, l.id, l.ecu);
                }
            }
        }
    }
    Ok(())
}

pub struct C05;
impl Check for C05 {
    type Case = TraceCase;
    const ID: &'static str = "C05";
    fn runs(t: Tier) -> u64 {
        t.pick(200_000, 6_000_000)
    }
    fn generate(rng: &mut Rng, tier: Tier, idx: u64) -> TraceCase {
        gen_trace_case(rng, tier, idx % 4 == 3)
    }
    fn run(c: &TraceCase, ctx: &mut Ctx) -> Result<(), Violation> {
        record_world(c, ctx);
        let r = run_stage(batches_of(c), ctx)?;
        ctx.event_u64(r.out.len() as u64);
        for m in &r.out {
            ctx.event_u64(m.index as u64);
        }
        ctx.probe_n("lifecycles_in_table", r.table.len() as u64);
        check_forwarding(c, &r)?;
        ctx.nontrivial = c.trace.len() > 1;
        Ok(())
    }
    fn shrink(c: &TraceCase) -> Vec<TraceCase> {
        shrink_trace_case(c)
    }
    fn finding_key(_c: &TraceCase, v: &Violation) -> Option<String> {
        lc_finding_key(v)
    }
    fn rule() -> &'static str {
        "one run = one simulated world (1-4 ECUs, 1-6 boots each, transport with constant/jittered delay, late connect bursts, delay spikes, drops, duplicates, reorders, timestamp corruption, suspend/resume, recorder clock jumps and coarse clock, injected control requests; swarm: random subset per run) recorded into 5-600 messages and pushed through the real lifecycle stage (optionally in two batches, the second with the returned write handle); non-trivial = more than one message; distinct = hash of (length, first 64 messages' times/ecus)"
    }
    fn assumptions() -> Vec<&'static str> {
        vec![
            "lifecycle ids come from a process-global counter: the oracle never assumes concrete ids",
            "reception times are kept above 120 s since the epoch (smaller values are C03's business: arithmetic underflow)",
        ]
    }
    fn real_components() -> Vec<&'static str> {
        vec!["adlt::lifecycle::parse_lifecycles_buffered_from_stream", "adlt::lifecycle::Lifecycle::{new,update,merge}", "evmap"]
    }
    fn stub_components() -> Vec<&'static str> {
        vec!["ECUs, transport and recorder (world model)", "producer/consumer of the stage"]
    }
    fn required_reach() -> Vec<&'static str> {
        vec!["reboot", "delay_spike", "suspend_resume", "control_request", "timestamp_corruption", "prepopulated_table", "non_monotonic_reception_time"]
    }
}

pub fn lc_finding_key(v: &Violation) -> Option<String> {
    if v.class.starts_with("panic:src/lifecycle/mod.rs") && v.detail.contains("buffered_lcs does not contain") {
        return Some("LC-assert-newer-lifecycle-confirmed-before-older".into());
    }
    None
}

// ---------------------------------------------------------------------------------------------
// C07

fn check_table(r: &StageResult, n_in: usize) -> Result<(), Violation> {
    let mut hist: HashMap<LifecycleId, u32> = HashMap::new();
    for m in &r.out {
        *hist.entry(m.lifecycle).or_insert(0) += 1;
    }
    let mut sum = 0u64;
    for l in &r.table {
        if l.merged || l.nr_msgs == 0 {
            viol!("table-merged-entry", "lifecycle {} of ecu {:?} is listed although merged/invalid (nr_msgs {})", l.id, l.ecu, l.nr_msgs);
        }
        match hist.get(&l.id) {
            None => viol!("table-phantom-entry", "lifecycle {} of ecu {:?} (nr_msgs {}) is referenced by no delivered message", l.id, l.ecu, l.nr_msgs),
            Some(n) => {
                if *n != l.nr_msgs {
                    viol!("table-count", "lifecycle {}: nr_msgs {} but {} delivered messages carry its id", l.id, l.nr_msgs, n);
                }
            }
        }
        sum += l.nr_msgs as u64;
    }
    if r.out.len() == n_in && sum != n_in as u64 {
        viol!("table-sum", "counts add up to {} but {} messages were delivered", sum, n_in);
    }
    // listing
    match &r.listing {
        None => {
            if !r.table.is_empty() {
                viol!("listing-missing", "listing could not be produced");
            }
        }
        Some(Err(v)) => return Err(Violation::new(format!("listing-{}", v.class), v.detail.clone())),
        Some(Ok(ids)) => {
            let mut a = ids.clone();
            a.sort();
            let mut b: Vec<LifecycleId> = r.table.iter().map(|l| l.id).collect();
            b.sort();
            if a != b {
                viol!("listing-not-permutation", "listing {:?} vs table {:?}", ids, b);
            }
            let by_id: HashMap<LifecycleId, &LcInfo> = r.table.iter().map(|l| (l.id, l)).collect();
            let pos: HashMap<LifecycleId, usize> = ids.iter().enumerate().map(|(i, id)| (*id, i)).collect();
            let any_resume = r.table.iter().any(|l| l.is_resume);
            if !any_resume {
                for w in ids.windows(2) {
                    if by_id[&w[0]].start > by_id[&w[1]].start {
                        viol!("listing-order", "no resume detected but lifecycle {} (start {}) is listed before {} (start {})", w[0], by_id[&w[0]].start, w[1], by_id[&w[1]].start);
                    }
                }
            } else {
                // the lifecycle a resume refers to is taken from hook H3; if that one is no longer
                // listed (merged away) there is nothing to compare with
                for l in r.table.iter().filter(|l| l.is_resume) {
                    if let Some(o) = l.resumes {
                        if let (Some(pl), Some(po)) = (pos.get(&l.id), pos.get(&o)) {
                            if pl < po {
                                viol!("listing-resume-before-origin", "resumed lifecycle {} is listed before the lifecycle {} it resumes", l.id, o);
                            }
                        }
                    }
                }
            }
        }
    }
    Ok(())
}

pub struct C07;
impl Check for C07 {
    type Case = TraceCase;
    const ID: &'static str = "C07";
    fn runs(t: Tier) -> u64 {
        t.pick(200_000, 6_000_000)
    }
    fn generate(rng: &mut Rng, tier: Tier, idx: u64) -> TraceCase {
        gen_trace_case(rng, tier, idx % 2 == 1)
    }
    fn run(c: &TraceCase, ctx: &mut Ctx) -> Result<(), Violation> {
        record_world(c, ctx);
        let r = run_stage(batches_of(c), ctx)?;
        ctx.event_u64(r.table.len() as u64);
        for l in &r.table {
            ctx.event_u64(l.nr_msgs as u64);
        }
        ctx.probe_n("lifecycles_in_table", r.table.len() as u64);
        ctx.probe_n("resume_lifecycles", r.table.iter().filter(|l| l.is_resume).count() as u64);
        // boots of the ground truth that ended up sharing a lifecycle = merges happened
        let mut per_lc: HashMap<LifecycleId, std::collections::BTreeSet<(u8, u16)>> = HashMap::new();
        for (t, m) in c.trace.iter().zip(r.out.iter()) {
            per_lc.entry(m.lifecycle).or_default().insert((t.ecu, t.boot));
        }
        ctx.probe_n("lifecycles_spanning_several_boots", per_lc.values().filter(|s| s.len() > 1).count() as u64);
        check_table(&r, c.trace.len())?;
        ctx.nontrivial = r.table.len() > 1;
        Ok(())
    }
    fn shrink(c: &TraceCase) -> Vec<TraceCase> {
        shrink_trace_case(c)
    }
    fn finding_key(_c: &TraceCase, v: &Violation) -> Option<String> {
        lc_finding_key(v)
    }
    fn rule() -> &'static str {
        "worlds as in C05 (half of the runs biased to >= 2 ECUs, >= 3 boots, delay spikes and suspend/resume, the shapes that confirm a lifecycle and merge it later); after the stage returned, the published table is compared with the histogram of delivered lifecycle ids and the listing is produced and checked; non-trivial = table has more than one lifecycle"
    }
    fn assumptions() -> Vec<&'static str> {
        vec!["the lifecycle a resume refers to is read through hook H3 (cfg-guarded accessor); if it is no longer listed nothing is demanded for that entry"]
    }
    fn real_components() -> Vec<&'static str> {
        vec!["adlt::lifecycle::parse_lifecycles_buffered_from_stream", "adlt::lifecycle::get_sorted_lifecycles_as_vec", "evmap"]
    }
    fn stub_components() -> Vec<&'static str> {
        vec!["ECUs, transport and recorder (world model)"]
    }
    fn required_reach() -> Vec<&'static str> {
        vec!["resume_lifecycles", "lifecycles_spanning_several_boots", "reboot"]
    }
}

// ---------------------------------------------------------------------------------------------
// C08

#[derive(Clone, Debug, Serialize, Deserialize)]
pub struct CleanCase {
    pub world: CleanWorld,
    /// lifecycle stage knob: regular refresh every n messages (0 = the code's 100 000)
    #[serde(default)]
    pub refresh_every: u32,
}

/// is (ecu, boot b -> b+1) a pair of the open-finding family: calculated start of the next boot
/// not after the calculated end of the previous one
fn family_pair(prev: &CleanBoot, next: &CleanBoot) -> bool {
    let u = *prev.uptimes_dms.iter().max().unwrap() as u64 * 100;
    next.power_on_us + next.delay_us <= prev.power_on_us + prev.delay_us + u
}

pub struct C08;
impl Check for C08 {
    type Case = CleanCase;
    const ID: &'static str = "C08";
    fn runs(t: Tier) -> u64 {
        t.pick(200_000, 6_000_000)
    }
    fn generate(rng: &mut Rng, _tier: Tier, _idx: u64) -> CleanCase {
        let world = gen_clean_world(rng, 4);
        CleanCase { world, refresh_every: *rng.sub("refresh").pick(&[0u32, 0, 0, 1, 2, 3, 7, 20, 100]) }
    }
    fn run(c: &CleanCase, ctx: &mut Ctx) -> Result<(), Violation> {
        if c.refresh_every != 0 {
            adlt_verif_seam::knobs::set_lc_regular_refresh_interval(c.refresh_every);
            ctx.probe("lc_regular_refresh_interval_shortened");
        }
        let w = &c.world;
        // re-check the class on the concrete world (shrinking may leave it): boots sequential with
        // off time >= 1 ms, all receptions of boot b before all of boot b+1
        for boots in &w.ecus {
            for p in boots.windows(2) {
                let pu = *p[0].uptimes_dms.iter().max().unwrap() as u64 * 100;
                if p[1].power_on_us < p[0].power_on_us + pu + 1_000 {
                    return Ok(());
                }
                let last_rx = p[0].power_on_us + pu + p[0].delay_us;
                let first_rx = p[1].power_on_us + *p[1].uptimes_dms.iter().min().unwrap() as u64 * 100 + p[1].delay_us;
                if first_rx <= last_rx {
                    return Ok(());
                }
            }
            if boots.iter().any(|b| b.uptimes_dms.is_empty()) {
                return Ok(());
            }
        }
        let trace = w.trace();
        let n_boots: usize = w.ecus.iter().map(|b| b.len()).sum();
        ctx.sig.u64(trace.len() as u64);
        for m in trace.iter().take(48) {
            ctx.sig.u64(m.rx_us ^ ((m.ts as u64) << 24));
        }
        ctx.cfg("reboot");
        ctx.fired_n("reboot", (n_boots - w.ecus.len()) as u64);
        ctx.cfg("late_connect_pair(previous delay exceeds next by the recording gap)");
        let mut fam_pairs = 0;
        for boots in &w.ecus {
            for p in boots.windows(2) {
                if family_pair(&p[0], &p[1]) {
                    fam_pairs += 1;
                }
            }
        }
        ctx.fired_n("late_connect_pair(previous delay exceeds next by the recording gap)", fam_pairs);
        // simulated time = recorded span per ECU (an ECU recorded from the epoch and one recorded in 2020 do not span 50 years)
        for e in 0..w.ecus.len() {
            let rx = trace.iter().filter(|m| m.ecu as usize == e).map(|m| m.rx_us);
            if let (Some(a), Some(b)) = (rx.clone().min(), rx.max()) {
                ctx.sim_time((b - a) as u128 * 1000);
            }
        }
        let r = run_stage(vec![to_dlts(&trace, 0)], ctx)?;
        if r.out.len() != trace.len() {
            viol!("forward-count", "{} in {} out", trace.len(), r.out.len());
        }
        // map lifecycle -> set of boots, boot -> set of lifecycles
        let mut lc_boots: BTreeMap<LifecycleId, std::collections::BTreeSet<(u8, u16)>> = BTreeMap::new();
        let mut boot_lcs: BTreeMap<(u8, u16), std::collections::BTreeSet<LifecycleId>> = BTreeMap::new();
        for (t, m) in trace.iter().zip(r.out.iter()) {
            lc_boots.entry(m.lifecycle).or_default().insert((t.ecu, t.boot));
            boot_lcs.entry((t.ecu, t.boot)).or_default().insert(m.lifecycle);
        }
        // clusters of boots whose calculated [start, start+max uptime] ranges overlap transitively
        // (the detector's own merge rule applied to the ground truth): the open finding covers them
        let mut clustered: std::collections::BTreeSet<(u8, u16)> = Default::default();
        for (e, boots) in w.ecus.iter().enumerate() {
            let mut cl: Vec<(u64, u64, Vec<u16>)> = vec![];
            for (b, boot) in boots.iter().enumerate() {
                let s = boot.power_on_us + boot.delay_us;
                let u = *boot.uptimes_dms.iter().max().unwrap() as u64 * 100;
                cl.push((s, u, vec![b as u16]));
                while cl.len() >= 2 {
                    let n = cl.len();
                    if cl[n - 1].0 <= cl[n - 2].0 + cl[n - 2].1 {
                        let last = cl.pop().unwrap();
                        let p = cl.last_mut().unwrap();
                        p.0 = std::cmp::min(p.0, last.0);
                        p.1 = std::cmp::max(p.1, last.1);
                        p.2.extend(last.2);
                    } else {
                        break;
                    }
                }
            }
            for p in 0..boots.len().saturating_sub(1) {
                if family_pair(&boots[p], &boots[p + 1]) {
                    clustered.insert((e as u8, p as u16));
                    clustered.insert((e as u8, p as u16 + 1));
                }
            }
            for c in cl {
                if c.2.len() > 1 {
                    for b in c.2 {
                        clustered.insert((e as u8, b));
                    }
                }
            }
        }
        let in_family = |e: u8, b: u16| -> bool { clustered.contains(&(e, b)) };
        let deviation: std::cell::RefCell<Option<(String, String, bool)>> = std::cell::RefCell::new(None); // (class, detail, explained by family)
        let note = |class: &str, detail: String, boots_involved: Vec<(u8, u16)>| {
            let explained = !boots_involved.is_empty() && boots_involved.iter().all(|(e, b)| in_family(*e, *b));
            let mut d = deviation.borrow_mut();
            match &*d {
                Some((_, _, false)) => {}
                Some((_, _, true)) if explained => {}
                _ => *d = Some((class.to_string(), detail, explained)),
            }
        };
        for (lc, boots) in lc_boots.iter() {
            if boots.len() > 1 {
                note("boots-merged", format!("lifecycle {} contains messages of boots {:?}", lc, boots), boots.iter().cloned().collect());
            }
        }
        for (boot, lcs) in boot_lcs.iter() {
            if lcs.len() > 1 {
                note("boot-split", format!("boot {:?} is spread over lifecycles {:?}", boot, lcs), vec![*boot]);
            }
        }
        let table: HashMap<LifecycleId, &LcInfo> = r.table.iter().map(|l| (l.id, l)).collect();
        // exact start/end/count per boot (only meaningful where the partition is right)
        for (boot, lcs) in boot_lcs.iter() {
            if lcs.len() != 1 {
                continue;
            }
            let lc = *lcs.iter().next().unwrap();
            if lc_boots[&lc].len() != 1 {
                continue;
            }
            let b = &w.ecus[boot.0 as usize][boot.1 as usize];
            let l = match table.get(&lc) {
                Some(l) => l,
                None => {
                    note("lifecycle-missing", format!("lifecycle {} of boot {:?} not in table", lc, boot), vec![*boot]);
                    continue;
                }
            };
            let exp_start = b.power_on_us + b.delay_us;
            let exp_end = exp_start + *b.uptimes_dms.iter().max().unwrap() as u64 * 100;
            if l.start != exp_start {
                note("wrong-start", format!("boot {:?}: start {} expected {} (power on {} + delay {})", boot, l.start, exp_start, b.power_on_us, b.delay_us), vec![*boot]);
            } else if l.end != exp_end && *b.uptimes_dms.iter().max().unwrap() > 0 {
                note("wrong-end", format!("boot {:?}: end {} expected {}", boot, l.end, exp_end), vec![*boot]);
            } else if l.nr_msgs as usize != b.uptimes_dms.len() {
                note("wrong-count", format!("boot {:?}: nr_msgs {} expected {}", boot, l.nr_msgs, b.uptimes_dms.len()), vec![*boot]);
            }
        }
        for e in 0..w.ecus.len() {
            let n_lc = r.table.iter().filter(|l| l.ecu == ecu_name(e as u8)).count();
            if n_lc != w.ecus[e].len() && deviation.borrow().is_none() {
                note("wrong-number-of-lifecycles", format!("ecu {}: {} lifecycles listed for {} boots", e, n_lc, w.ecus[e].len()), vec![]);
            }
        }
        ctx.event_u64(r.table.len() as u64);
        ctx.nontrivial = n_boots > 1;
        let deviation = deviation.borrow().clone();
        match deviation {
            None => Ok(()),
            Some((class, detail, explained)) => {
                if explained {
                    Err(Violation::new(format!("{}:late-connect-family", class), detail))
                } else {
                    Err(Violation::new(class, detail))
                }
            }
        }
    }
    fn shrink(c: &CleanCase) -> Vec<CleanCase> {
        let mut out = vec![];
        let w = &c.world;
        for e in 0..w.ecus.len() {
            if w.ecus.len() > 1 {
                let mut w2 = w.clone();
                w2.ecus.remove(e);
                w2.interleave = w2.interleave.iter().filter(|x| **x as usize != e).map(|x| if *x as usize > e { x - 1 } else { *x }).collect();
                out.push(CleanCase { world: w2, refresh_every: c.refresh_every });
            }
            for b in 0..w.ecus[e].len() {
                if w.ecus[e].len() > 1 {
                    let mut w2 = w.clone();
                    w2.ecus[e].remove(b);
                    out.push(CleanCase { world: w2, refresh_every: c.refresh_every });
                }
                if w.ecus[e][b].uptimes_dms.len() > 1 {
                    for u in shrink_vec(&w.ecus[e][b].uptimes_dms) {
                        if !u.is_empty() {
                            let mut w2 = w.clone();
                            w2.ecus[e][b].uptimes_dms = u;
                            out.push(CleanCase { world: w2, refresh_every: c.refresh_every });
                        }
                    }
                }
            }
        }
        if !w.interleave.is_empty() {
            let mut w2 = w.clone();
            w2.interleave = vec![];
            out.push(CleanCase { world: w2, refresh_every: c.refresh_every });
        }
        out
    }
    fn finding_key(_c: &CleanCase, v: &Violation) -> Option<String> {
        if v.class.ends_with(":late-connect-family") {
            return Some("C08-late-connect-boots-merged".into());
        }
        lc_finding_key(v)
    }
    fn rule() -> &'static str {
        "one run = one world of the statement's literal class: 1-4 ECUs, 1-6 sequential boots each (off time >= 1 ms), one constant transport delay per boot (0-90 s), messages of a boot in arbitrary stream order (sorted, shuffled, reversed), boots of 1-2 messages, first timestamp 0, optional > 10 s reception gap inside a boot, ECUs interleaved arbitrarily, one ECU in twelve recorded by a clock that starts at the epoch (boot time + delay may be 0, a timestamp may equal its reception time); the detected partition, starts, ends and counts are compared with the ground truth; members of the known late-connect family are drawn at a fixed low rate (4 % of boot pairs); non-trivial = more than one boot"
    }
    fn assumptions() -> Vec<&'static str> {
        vec![
            "the world generator is the encoding of the statement's class (spelled out in DESIGN.md §6 C08); the class is re-checked on the concrete world before judging",
            "a deviation is attributed to the open finding only if every boot involved belongs to an adjacent pair whose calculated start/end overlap (T'+d' <= T+d+U)",
        ]
    }
    fn real_components() -> Vec<&'static str> {
        vec!["adlt::lifecycle::parse_lifecycles_buffered_from_stream", "adlt::lifecycle::Lifecycle::update"]
    }
    fn stub_components() -> Vec<&'static str> {
        vec!["ECUs, transport and recorder (clean-class world model)"]
    }
    fn required_reach() -> Vec<&'static str> {
        vec!["reboot"]
    }
}
