//! C12 — Filter sets: positive OR, negative veto, event AND; order and counts kept
//! (filter stage as a shuttle thread between bounded channels + set matcher of remote/export)

use crate::fw::{shrink_vec, Check, Ctx, Tier, Violation};
use crate::rng::Rng;
use crate::sh::{self, SchedCfg, SchedKind};
use crate::viol;
use crate::world::*;
use adlt::dlt::DltMessage;
use adlt::filter::{Filter, FilterKind};
use adlt::utils::remote_utils::{match_filters, process_stream_new_msgs, StreamContext};
use adlt::utils::sync_sender_send_delay_if_full;
use adlt_verif_seam::std as sstd;
use serde::{Deserialize, Serialize};

#[derive(Clone, Debug, Serialize, Deserialize)]
pub struct Case {
    pub trace: Vec<TMsg>,
    pub filters: Vec<String>,
    pub sched: SchedCfg,
    pub consumer_drop_after: Option<usize>,
    pub consumer_stalls: Vec<(usize, usize)>,
}

pub fn gen_filter_json(rng: &mut Rng) -> String {
    let kind = rng.weighted(&[40, 30, 10, 20]);
    let mut f = serde_json::Map::new();
    f.insert("type".into(), kind.into());
    if rng.chance(1, 5) {
        f.insert("enabled".into(), false.into());
    }
    if rng.chance(1, 4) {
        f.insert("not".into(), true.into());
    }
    let ncrit = rng.weighted(&[10, 50, 30, 10]);
    for _ in 0..ncrit {
        match rng.below(8) {
            0 => {
                f.insert("ecu".into(), (*rng.pick(&["ECU0", "ECU1", "E2", "ECU", "^ECU[01]", "E"])).into());
            }
            1 => {
                f.insert("apid".into(), (*rng.pick(&["APP1", "APP2", "SYS", "A", "^APP", "LONG", "DA1"])).into());
            }
            2 => {
                f.insert("ctid".into(), (*rng.pick(&["CTX1", "CTX2", "JOUR", "C", "MAIN|JOUR", "DC1"])).into());
            }
            3 => {
                f.insert("logLevelMax".into(), (rng.below(7)).into());
            }
            4 => {
                f.insert("logLevelMin".into(), (rng.below(7)).into());
            }
            5 => {
                f.insert("payload".into(), (*rng.pick(&["msg 1", "ecu 0", "boot 1", "APP", "Msg", "of ECU"])).into());
                if rng.bool() {
                    f.insert("ignoreCasePayload".into(), true.into());
                }
            }
            6 => {
                f.insert("payloadRegex".into(), (*rng.pick(&["^msg [0-9]+ of ecu [01]", "boot [12]$|app 3$", "ecu \\d boot 0", "^MSG"])).into());
                if rng.bool() {
                    f.insert("ignoreCasePayload".into(), true.into());
                }
            }
            _ => {
                f.insert("mstp".into(), (rng.below(4)).into());
            }
        }
    }
    serde_json::Value::Object(f).to_string()
}

/// the export plugin: `filters` as configured plus, optionally, `lifecyclesToKeep`; the exported file must hold
/// exactly the messages the stated rule keeps (and whose lifecycle is one of those to keep), in order
fn run_export_leg(c: &Case, msgs: &[DltMessage], kept_set: &[bool], ctx: &mut Ctx) -> Result<(), Violation> {
    use adlt::plugins::plugin::Plugin;
    let base = std::env::var("VERIF_TMP").unwrap_or_else(|_| "/verif/sim/target/tmp".to_string());
    let root = std::path::PathBuf::from(base).join(format!("c12-{}", std::process::id()));
    let _ = std::fs::create_dir_all(&root);
    let path = root.join("export.dlt");
    let _ = std::fs::remove_file(&path);
    let with_lcs = (c.sched.seed / 3) % 2 == 0;
    let pick = c.sched.seed / 6;
    let res = sh::slot((Vec::<DltMessage>::new(), Vec::<crate::lc::LcInfo>::new(), Vec::<u32>::new(), String::new()));
    let res2 = res.clone();
    let input = std::sync::Arc::new(msgs.to_vec());
    let fjson = c.filters.clone();
    let path_s = path.to_string_lossy().to_string();
    crate::lc::align_lc_ids();
    sh::run(&SchedCfg::simple(), ctx, move || {
        let (lcs_r, lcs_w) = evmap::Options::default().with_hasher(crate::lc::NoHash::default()).construct::<adlt::lifecycle::LifecycleId, adlt::lifecycle::Lifecycle>();
        let (tx, rx) = sstd::sync::mpsc::channel();
        for m in input.iter() {
            tx.send(m.clone()).unwrap();
        }
        drop(tx);
        let staged = std::cell::RefCell::new(vec![]);
        let lcs_w = adlt::lifecycle::parse_lifecycles_buffered_from_stream(lcs_w, rx, &|m| {
            staged.borrow_mut().push(m);
            Ok(())
        });
        let staged = staged.into_inner();
        let table = crate::pipes::snapshot_table(&lcs_r);
        // lifecycles to keep: a seed-chosen subset of the plain (non resume) lifecycles, described as a client would
        let mut keep_ids = vec![];
        let mut lcis = vec![];
        if with_lcs {
            for (i, l) in table.iter().enumerate() {
                if !l.is_resume && (pick >> (i % 40)) & 1 == 1 {
                    keep_ids.push(l.id);
                    let ecu = String::from_utf8_lossy(&l.ecu).trim_end_matches('\0').to_string();
                    lcis.push(serde_json::json!({"ecu": ecu, "startTime": l.start, "endTime": l.end}));
                }
            }
        }
        let mut cfg = serde_json::json!({"name":"Export","enabled":true,"exportFileName":path_s});
        cfg["filters"] = serde_json::Value::Array(fjson.iter().map(|j| serde_json::from_str::<serde_json::Value>(j).unwrap()).collect());
        if !lcis.is_empty() {
            cfg["lifecyclesToKeep"] = serde_json::Value::Array(lcis);
        }
        let mut err = String::new();
        match adlt::plugins::export::ExportPlugin::from_json(cfg.as_object().unwrap()) {
            Ok(mut p) => {
                p.set_lifecycle_read_handle(&lcs_r);
                for m in staged.iter() {
                    let mut mm = m.clone();
                    if !p.process_msg(&mut mm) {
                        err = format!("the export plugin removed message {} from the stream", m.index);
                    }
                }
                drop(p);
            }
            Err(e) => err = format!("config rejected: {}", e),
        }
        *res2.lock().unwrap() = (staged, table, keep_ids, err);
        drop(lcs_w);
    })?;
    let (staged, table, keep_ids, err) = res.lock().unwrap().clone();
    if !err.is_empty() {
        viol!("export-plugin-error", "{}", err);
    }
    // mirror of the lifecycle selection: a described lifecycle is matched by the first lifecycle of that ECU that lies
    // inside [start, end]; each description is used once
    let mut remaining: Vec<(LcKey, u64, u64)> = table.iter().filter(|l| keep_ids.contains(&l.id)).map(|l| (l.ecu, l.start, l.end)).collect();
    let mut exported_lcs: Vec<u32> = vec![];
    let mut checked: std::collections::BTreeSet<u32> = Default::default();
    let lc_mode = !keep_ids.is_empty();
    let mut expected: Vec<&DltMessage> = vec![];
    if staged.len() != msgs.len() {
        viol!("export-leg-stage-count", "lifecycle stage delivered {} of {} messages", staged.len(), msgs.len());
    }
    for (i, m) in staged.iter().enumerate() {
        if lc_mode && !remaining.is_empty() && checked.insert(m.lifecycle) {
            if let Some(l) = table.iter().find(|l| l.id == m.lifecycle) {
                if let Some(p) = remaining.iter().position(|(ecu, st, en)| ecu == m.ecu.as_buf() && !l.is_resume && l.start >= *st && l.end <= *en) {
                    exported_lcs.push(m.lifecycle);
                    remaining.remove(p);
                }
            }
        }
        if kept_set[i] && (!lc_mode || exported_lcs.contains(&m.lifecycle)) {
            expected.push(m);
        }
    }
    let bytes = std::fs::read(&path).unwrap_or_default();
    let got: Vec<DltMessage> = adlt::utils::DltMessageIterator::new(0, &bytes[..]).collect();
    let _ = std::fs::remove_file(&path);
    // the file starts with one info message (when anything was exported at all)
    let got = if got.is_empty() { &got[..] } else { &got[1..] };
    if got.len() != expected.len() {
        viol!("export-selection-count", "the export file holds {} messages, the rule (filters {:?}, lifecycles to keep {:?}) selects {} of {}", got.len(), c.filters, keep_ids.len(), expected.len(), staged.len());
    }
    for (k, (a, b)) in got.iter().zip(expected.iter()).enumerate() {
        if a.reception_time_us != b.reception_time_us || a.timestamp_dms != b.timestamp_dms || a.payload != b.payload || a.ecu != b.ecu {
            viol!("export-selection", "export file position {}: not the expected message (index {} expected)", k, b.index);
        }
    }
    ctx.probe("export_plugin_files_compared");
    if lc_mode {
        ctx.probe("export_with_lifecycles_to_keep");
    }
    Ok(())
}
type LcKey = [u8; 4];

pub struct C12;
impl Check for C12 {
    type Case = Case;
    const ID: &'static str = "C12";
    fn runs(t: Tier) -> u64 {
        t.pick(60_000, 3_000_000)
    }
    fn generate(rng: &mut Rng, _tier: Tier, _idx: u64) -> Case {
        let mut k = rng.sub("knobs");
        let max_msgs = k.urange(5, 200);
        let mut knobs = WorldKnobs::gen(&mut k, max_msgs);
        knobs.f_suspend = false;
        let (mut trace, _) = gen_world(&mut rng.sub("world"), &knobs);
        trace.truncate(200);
        let nf = k.weighted(&[8, 20, 25, 20, 12, 8, 7]);
        let mut fr = rng.sub("filters");
        let filters = (0..nf).map(|_| gen_filter_json(&mut fr)).collect();
        let n = trace.len();
        let nst = k.usize(4);
        Case {
            trace,
            filters,
            sched: SchedCfg::gen(&mut rng.sub("sched")),
            consumer_drop_after: if k.chance(1, 8) { Some(k.usize(n + 1)) } else { None },
            consumer_stalls: (0..nst).map(|_| (k.usize(n + 1), k.urange(1, 40))).collect(),
        }
    }
    fn run(c: &Case, ctx: &mut Ctx) -> Result<(), Violation> {
        let msgs = to_dlts(&c.trace, 0);
        let filters: Vec<Filter> = c.filters.iter().filter_map(|j| Filter::from_json(j).ok()).collect();
        if filters.len() != c.filters.len() {
            ctx.probe("filter_json_rejected");
            return Ok(());
        }
        ctx.sig.u64(msgs.len() as u64);
        for f in &c.filters {
            ctx.sig.str(f);
        }
        ctx.sig.u64(c.sched.seed);
        // reference verdicts from the real per-filter predicate, combined by the stated rule
        let en = |k: FilterKind| filters.iter().filter(move |f| f.enabled && f.kind == k).collect::<Vec<_>>();
        let pos = en(FilterKind::Positive);
        let neg = en(FilterKind::Negative);
        let evt = en(FilterKind::Event);
        for k in [FilterKind::Positive, FilterKind::Negative, FilterKind::Marker, FilterKind::Event] {
            if filters.iter().any(|f| f.kind == k) {
                ctx.probe(match k {
                    FilterKind::Positive => "set_has_positive",
                    FilterKind::Negative => "set_has_negative",
                    FilterKind::Marker => "set_has_marker",
                    FilterKind::Event => "set_has_event",
                });
            }
        }
        if filters.iter().any(|f| !f.enabled) {
            ctx.probe("set_has_disabled");
        }
        let kept_stream: Vec<bool> = msgs
            .iter()
            .map(|m| (pos.is_empty() || pos.iter().any(|f| f.matches(m))) && !neg.iter().any(|f| f.matches(m)))
            .collect();
        let kept_set: Vec<bool> = msgs
            .iter()
            .zip(kept_stream.iter())
            .map(|(m, k)| *k && (evt.is_empty() || evt.iter().any(|f| f.matches(m))))
            .collect();
        // (b) the set matcher used by remote streams/searches, on the set StreamContext::from builds
        let log = slog::Logger::root(slog::Discard, slog::o!());
        let body = format!(r#"{{"filters":[{}]}}"#, c.filters.join(","));
        match StreamContext::from(&log, "stream", &body) {
            Ok(mut sc) => {
                for (i, m) in msgs.iter().enumerate() {
                    let got = match_filters(m, &sc.filters);
                    if got != kept_set[i] {
                        viol!(
                            "set-matcher-rule",
                            "message {}: set matcher says {} but the rule (pos OR / neg veto / event AND over the per-filter verdicts) says {}; filters {:?}",
                            i, got, kept_set[i], c.filters
                        );
                    }
                }
                ctx.probe("set_matcher_evaluations");
                // (c) the incremental stream index the server keeps: everything handed over at once or in two
                // parts, processed in chunks of a size derived from the case (the server uses 3 M)
                let chunk = [1usize, 2, 7, 30, 64, 3_000_000][(c.sched.seed % 6) as usize];
                let cut = if msgs.is_empty() { 0 } else { (c.sched.seed / 7) as usize % (msgs.len() + 1) };
                let mut avail = cut;
                let mut guard = 0;
                loop {
                    let last = std::cmp::min(sc.all_msgs_last_processed_len, avail);
                    process_stream_new_msgs(&mut sc, last, &msgs[last..avail], chunk);
                    guard += 1;
                    if sc.all_msgs_last_processed_len >= avail {
                        if avail == msgs.len() {
                            break;
                        }
                        avail = msgs.len();
                    }
                    if guard > 2 * msgs.len() + 10 {
                        viol!("stream-index-no-progress", "process_stream_new_msgs made no progress: processed {} of {} (chunk {})", sc.all_msgs_last_processed_len, avail, chunk);
                    }
                }
                if sc.filters_active {
                    let want: Vec<usize> = (0..msgs.len()).filter(|i| kept_set[*i]).collect();
                    if sc.filtered_msgs != want {
                        viol!("stream-index-rule", "stream index after processing {} messages in chunks of {} holds {} positions ({:?}...) but the rule keeps {} ({:?}...); filters {:?}", msgs.len(), chunk, sc.filtered_msgs.len(), &sc.filtered_msgs[..std::cmp::min(6, sc.filtered_msgs.len())], want.len(), &want[..std::cmp::min(6, want.len())], c.filters);
                    }
                    ctx.probe("stream_index_compared");
                }
            }
            Err(e) => viol!("stream-context-rejected", "StreamContext::from rejected valid filters: {}", e),
        }
        // (d) the same index for a one-time query whose window end is reached in a later hand-over, and is enlarged
        // afterwards: kept + dropped (= processed) never exceeds what was handed over, the kept positions are the
        // rule's positions below the processed length (at most the window), and after the enlargement the rest follows
        let n_rule = kept_set.iter().filter(|k| **k).count();
        if n_rule > 0 {
            let w = 1 + (c.sched.seed / 11) as usize % (n_rule + 1);
            let body = format!(r#"{{"window":[0,{}],"filters":[{}]}}"#, w, c.filters.join(","));
            if let Ok(mut sc) = StreamContext::from(&log, "query", &body) {
                if sc.filters_active {
                    let chunk = [1usize, 2, 7, 30, 64, 3_000_000][(c.sched.seed / 3 % 6) as usize];
                    let n_parts = 1 + (c.sched.seed / 5 % 3) as usize;
                    let mut cuts: Vec<usize> = (1..n_parts).map(|k| (c.sched.seed / (7 * k as u64)) as usize % (msgs.len() + 1)).collect();
                    cuts.push(msgs.len());
                    cuts.sort();
                    let check = |sc: &StreamContext, avail: usize, what: &str| -> Result<(), Violation> {
                        let p = sc.all_msgs_last_processed_len;
                        if p > avail {
                            viol!("query-index-counts", "{}: {} messages accounted for (kept + dropped) but only {} received; window end {}, chunk {}, filters {:?}", what, p, avail, sc.msgs_to_send.end, chunk, c.filters);
                        }
                        let want: Vec<usize> = (0..p).filter(|i| kept_set[*i]).collect();
                        if sc.filtered_msgs != want {
                            viol!("query-index-rule", "{}: query index holds {} positions ({:?}...) but the rule keeps {} below the processed length {} ({:?}...); window end {}, chunk {}, filters {:?}", what, sc.filtered_msgs.len(), &sc.filtered_msgs[..std::cmp::min(6, sc.filtered_msgs.len())], want.len(), p, &want[..std::cmp::min(6, want.len())], sc.msgs_to_send.end, chunk, c.filters);
                        }
                        Ok(())
                    };
                    let mut guard = 0;
                    for (ci, avail) in cuts.iter().copied().enumerate() {
                        loop {
                            let done = sc.all_msgs_last_processed_len >= avail || sc.filtered_msgs.len() >= sc.msgs_to_send.end;
                            if done {
                                break;
                            }
                            let last = std::cmp::min(sc.all_msgs_last_processed_len, avail);
                            process_stream_new_msgs(&mut sc, last, &msgs[last..avail], chunk);
                            check(&sc, avail, &format!("query, hand-over {}", ci))?;
                            guard += 1;
                            if guard > 3 * msgs.len() + 30 {
                                viol!("stream-index-no-progress", "query index made no progress: processed {} of {} (chunk {})", sc.all_msgs_last_processed_len, avail, chunk);
                            }
                        }
                    }
                    if sc.filtered_msgs.len() != std::cmp::min(w, n_rule) {
                        viol!("query-index-rule", "query with window end {} over {} matching messages collected {}", w, n_rule, sc.filtered_msgs.len());
                    }
                    // the client enlarges the window: the search goes on where it stopped
                    sc.msgs_to_send.end = msgs.len() + 10;
                    loop {
                        if sc.all_msgs_last_processed_len >= msgs.len() {
                            break;
                        }
                        let last = sc.all_msgs_last_processed_len;
                        process_stream_new_msgs(&mut sc, last, &msgs[last..], chunk);
                        check(&sc, msgs.len(), "query after the window was enlarged")?;
                        guard += 1;
                        if guard > 6 * msgs.len() + 60 {
                            viol!("stream-index-no-progress", "query index made no progress after the window was enlarged: processed {} of {} (chunk {})", sc.all_msgs_last_processed_len, msgs.len(), chunk);
                        }
                    }
                    if sc.filtered_msgs.len() != n_rule {
                        viol!("query-index-rule", "query after the window was enlarged holds {} positions, the rule keeps {}", sc.filtered_msgs.len(), n_rule);
                    }
                    ctx.probe("query_index_compared");
                }
            }
        }
        // (a) the stream filter stage as a thread between bounded channels
        let res = sh::slot((Vec::<DltMessage>::new(), None::<Result<(usize, usize), String>>, 0usize));
        let res2 = res.clone();
        let msgs_a = std::sync::Arc::new(msgs.clone());
        let fjson = c.filters.clone();
        let drop_after = c.consumer_drop_after;
        let stalls = c.consumer_stalls.clone();
        sh::run(&c.sched, ctx, move || {
            let filters: Vec<Filter> = fjson.iter().filter_map(|j| Filter::from_json(j).ok()).collect();
            let (tx0, rx0) = sstd::sync::mpsc::sync_channel::<DltMessage>(1024);
            let (tx1, rx1) = sstd::sync::mpsc::sync_channel::<DltMessage>(1024);
            let ft = sstd::thread::spawn(move || {
                adlt::filter::functions::filter_as_streams(&filters, &rx0, &|m| sync_sender_send_delay_if_full(m, &tx1)).map_err(|e| e.to_string())
            });
            let stalls = stalls.clone();
            let ct = sstd::thread::spawn(move || {
                let mut got = vec![];
                if drop_after == Some(0) {
                    return got;
                }
                for m in rx1.iter() {
                    got.push(m);
                    for (p, n) in stalls.iter() {
                        if *p == got.len() {
                            for _ in 0..*n {
                                sstd::thread::sleep(std::time::Duration::from_millis(0));
                            }
                        }
                    }
                    if Some(got.len()) == drop_after {
                        break;
                    }
                }
                got
            });
            let msgs_p = msgs_a.clone();
            let pt = sstd::thread::spawn(move || {
                let mut sent = 0;
                for m in msgs_p.iter() {
                    if sync_sender_send_delay_if_full(m.clone(), &tx0).is_err() {
                        break;
                    }
                    sent += 1;
                }
                sent
            });
            let sent = pt.join().unwrap();
            let fr = ft.join().unwrap();
            let got = ct.join().unwrap();
            *res2.lock().unwrap() = (got, Some(fr), sent);
        })?;
        let (got, fr, sent) = res.lock().unwrap().clone();
        let expected: Vec<&DltMessage> = msgs.iter().zip(kept_stream.iter()).filter(|(_, k)| **k).map(|(m, _)| m).collect();
        ctx.event_u64(got.len() as u64);
        ctx.cfg("consumer_disappears");
        match c.consumer_drop_after {
            None => {
                if got.len() != expected.len() {
                    viol!("filter-stage-count", "{} messages forwarded, {} expected by the rule; filters {:?}", got.len(), expected.len(), c.filters);
                }
                for (i, (a, b)) in got.iter().zip(expected.iter()).enumerate() {
                    if a != *b {
                        viol!("filter-stage-sequence", "position {}: forwarded message {} but expected message {} (unchanged, in order)", i, a.index, b.index);
                    }
                }
                match fr {
                    Some(Ok((passed, filtered))) => {
                        if passed + filtered != msgs.len() || passed != expected.len() {
                            viol!("filter-stage-counters", "reported kept {} + dropped {} for {} received ({} actually kept)", passed, filtered, msgs.len(), expected.len());
                        }
                    }
                    other => viol!("filter-stage-error", "stage ended with {:?} although the consumer stayed", other),
                }
                if sent != msgs.len() {
                    viol!("filter-stage-producer", "producer could only send {} of {}", sent, msgs.len());
                }
            }
            Some(k) => {
                ctx.fired("consumer_disappears");
                for (i, (a, b)) in got.iter().zip(expected.iter()).enumerate() {
                    if a != *b {
                        viol!("filter-stage-sequence", "position {} before the drop: message {} vs expected {}", i, a.index, b.index);
                    }
                }
                if got.len() < std::cmp::min(k, expected.len()) {
                    viol!("filter-stage-lost", "only {} of min({}, {}) messages arrived before the drop", got.len(), k, expected.len());
                }
                // if the stage tried to forward after the consumer left it must report an error, not success
                if k < expected.len() {
                    if let Some(Ok((passed, _))) = fr {
                        if passed > k + 1024 + 1 {
                            viol!("filter-stage-no-error-on-drop", "stage reports {} kept although the consumer left after {}", passed, k);
                        }
                    }
                }
            }
        }
        // (d) the export plugin applies the same set (plus an optional lifecycle selection) while writing a file
        if c.sched.seed % 3 == 0 {
            run_export_leg(c, &msgs, &kept_set, ctx)?;
        }
        ctx.nontrivial = !filters.is_empty() && msgs.len() > 1 && kept_stream.iter().any(|k| *k) && kept_stream.iter().any(|k| !*k);
        Ok(())
    }
    fn shrink(c: &Case) -> Vec<Case> {
        let mut out = vec![];
        for t in shrink_vec(&c.trace) {
            out.push(Case { trace: t, ..c.clone() });
        }
        for f in shrink_vec(&c.filters) {
            out.push(Case { filters: f, ..c.clone() });
        }
        if c.consumer_drop_after.is_some() {
            out.push(Case { consumer_drop_after: None, ..c.clone() });
        }
        if !c.consumer_stalls.is_empty() {
            out.push(Case { consumer_stalls: vec![], ..c.clone() });
        }
        if !matches!(c.sched.kind, SchedKind::RoundRobin) {
            let mut s = c.sched.clone();
            s.kind = SchedKind::RoundRobin;
            out.push(Case { sched: s, ..c.clone() });
        }
        out
    }
    fn rule() -> &'static str {
        "one run = a filter set of 0-6 generated filters (positive/negative/marker/event, enabled or not, negated or not, overlapping ECU/APID/CTID literal+regex, level bounds, payload text/regex with case flag, message type) x a simulated message stream (<= 200 messages); the real stream filter stage runs as a shuttle thread between bounded channels (capacity and pacing knobs, consumer drop) and the real set matcher runs on the set StreamContext::from builds, and the server's incremental stream index (process_stream_new_msgs, chunk sizes 1..3M, one or two hand-overs) is built over the same messages, once as a stream and once as a one-time query whose window end (1..matching+1) is reached in an earlier or later hand-over and is enlarged afterwards (kept + dropped never above the number handed over, kept positions = the rule's positions below the processed length); in a third of the runs the export plugin is configured with the same set (half of these with a seed-chosen subset of the detected lifecycles as lifecyclesToKeep) and its export file is compared; both are compared with the stated combination rule applied to the real per-filter verdicts; non-trivial = the set keeps some and drops some messages; distinct = hash of (filters, #messages, schedule seed)"
    }
    fn assumptions() -> Vec<&'static str> {
        vec!["per-filter verdicts come from the real Filter::matches (its semantics belong to C11, which is not applicable to this technique); only the combination rule, order preservation and the counters are decided here"]
    }
    fn real_components() -> Vec<&'static str> {
        vec!["adlt::filter::functions::filter_as_streams", "adlt::utils::remote_utils::{match_filters, StreamContext::from}", "adlt::filter::Filter::{from_json, matches}", "adlt::utils::sync_sender_send_delay_if_full"]
    }
    fn stub_components() -> Vec<&'static str> {
        vec!["producer/consumer threads", "scheduler and channels (shuttle + seam)", "message generator"]
    }
    fn required_reach() -> Vec<&'static str> {
        vec!["set_has_positive", "set_has_negative", "set_has_event", "set_has_marker", "set_has_disabled", "consumer_disappears", "try_send_full", "stream_index_compared", "query_index_compared", "export_plugin_files_compared", "export_with_lifecycles_to_keep"]
    }
}
