//! C04 — Parsing depends only on the bytes, not on read chunking or position (engine E1)
//! (i) parser level: reference run over the whole slice vs. scripted short-read schedules,
//!     buffer geometries and suffix runs;  (ii) LowMarkBufReader alone against a reference model.

use crate::c01::{gen_items, gen_reader, iterate, ReaderCfg};
use crate::fw::{hexbytes, shrink_vec, Check, Ctx, Tier, Violation};
use crate::gen_dlt::*;
use crate::rng::Rng;
use crate::scripted::{gen_sched, Sched, ScriptedSource};
use crate::viol;
use adlt::dlt::{DltMessage, DLT_MAX_STORAGE_MSG_SIZE};
use adlt::utils::{DltMessageIterator, LowMarkBufReader};
use serde::{Deserialize, Serialize};
use std::io::{BufRead, Read, Seek, SeekFrom};
use std::sync::Arc;

#[derive(Clone, Debug, Serialize, Deserialize)]
pub enum Op {
    Fill,
    Consume(usize),
    /// consume relative to the currently buffered length: len + d (d may be negative)
    ConsumeRel(i64),
    Read(usize),
    SeekStart(u64),
    SeekCur(i64),
    SeekEnd(i64),
    /// seek to p + d where p is the model position (keeps seeks near the window)
    SeekRel(i64),
}

#[derive(Clone, Debug, Serialize, Deserialize)]
pub enum Case {
    Parser {
        framing: Framing,
        items: Vec<Item>,
        cut: Option<usize>,
        readers: Vec<ReaderCfg>,
        suffixes: Vec<usize>,
    },
    Reader {
        #[serde(with = "hexbytes")]
        src: Vec<u8>,
        capacity: usize,
        low_mark: usize,
        sched: Sched,
        ops: Vec<Op>,
    },
}

fn insert_marker(rng: &mut Rng, v: &mut [u8], f: Framing) {
    if v.len() >= 4 {
        let p = rng.usize(v.len() - 3);
        let m = if rng.chance(3, 4) {
            f.marker()
        } else if rng.bool() {
            M_STORAGE
        } else {
            M_SERIAL
        };
        v[p..p + 4].copy_from_slice(&m);
    }
}

fn gen_parser_case(rng: &mut Rng, tier: Tier, idx: u64) -> Case {
    let mut wl = rng.sub("workload");
    let (framing, mut items) = gen_items(&mut wl, tier, idx, false);
    let mut m = rng.sub("mutate");
    // embedded markers in payloads and noise
    for it in items.iter_mut() {
        match it {
            Item::Msg(s) if m.chance(1, 4) => insert_marker(&mut m, &mut s.payload, framing),
            Item::Noise(n) if m.chance(1, 4) => insert_marker(&mut m, n, framing),
            _ => {}
        }
    }
    // messages of the other framing / corrupted messages as raw byte runs
    let extra = m.below(4);
    for _ in 0..extra {
        let sc = m.below(3) as u32 + 1;
        let spec = gen_msg(&mut m, None, sc);
        let mut raw = vec![];
        let f2 = if m.bool() {
            framing
        } else if framing == Framing::Storage {
            Framing::Serial
        } else {
            Framing::Storage
        };
        spec.encode(f2, &mut raw);
        match m.below(4) {
            0 => {
                // corrupt the len field
                let o = f2.hdr() + 2;
                raw[o] = m.u8();
                raw[o + 1] = m.u8();
            }
            1 => {
                let l = raw.len();
                raw.truncate(m.urange(1, l));
            }
            _ => {}
        }
        let p = m.usize(items.len() + 1);
        items.insert(p, Item::Noise(raw));
    }
    // near-max-size messages at the buffer edge (the case uniform chunking practically never hits)
    if m.chance(1, 3) {
        let flags: u8 = m.u8() & 0x1f;
        let mut spec = gen_msg(&mut m, Some(flags), 5);
        let maxp = spec.payload.len();
        let shorten = m.usize(6);
        spec.payload.truncate(maxp - std::cmp::min(shorten, maxp));
        if m.chance(3, 4) {
            let fr = framing;
            insert_marker(&mut m, &mut spec.payload, fr);
        }
        let p = m.usize(items.len() + 1);
        items.insert(p, Item::Msg(spec));
        if m.chance(2, 3) {
            let l = m.urange(1, 12);
            let mut nz = gen_noise(&mut m, l);
            if m.chance(1, 4) {
                nz = vec![0u8; l];
            }
            items.insert(p + 1, Item::Noise(nz));
        }
    }
    let img_len = assemble(&items, framing).bytes.len();
    let cut = if m.chance(1, 4) && img_len > 0 {
        Some(m.usize(img_len + 1))
    } else {
        None
    };
    let mut rs = rng.sub("readers");
    let mut readers = vec![];
    let nr = tier.pick(3, 4);
    for _ in 0..nr {
        let r = loop {
            let r = gen_reader(&mut rs);
            if matches!(r, ReaderCfg::LowMark { .. }) {
                break r;
            }
        };
        readers.push(r);
    }
    // adversarial schedule is always among them
    readers.push(ReaderCfg::LowMark {
        cap_extra: *rs.pick(&[4096usize, 4097, 8192]),
        sched: Sched::Adversarial { j0: rs.usize(8) },
    });
    let suffixes = (0..3).map(|_| rs.usize(64)).collect();
    Case::Parser {
        framing,
        items,
        cut,
        readers,
        suffixes,
    }
}

fn gen_reader_case(rng: &mut Rng, _tier: Tier) -> Case {
    let mut k = rng.sub("knobs");
    let low_mark = *k.pick(&[1usize, 16, 100, 4096, 8192, 10_000, 65_551]);
    let capacity = low_mark + 4096 + *k.pick(&[0usize, 1, 100, 4096, 8192, 60_000]);
    let len = match k.below(5) {
        0 => k.usize(10),
        1 => k.usize(capacity),
        2 => capacity + k.usize(10),
        _ => k.usize(4 * capacity),
    };
    // source content: position-dependent so that stale bytes are recognisable
    let src: Vec<u8> = (0..len)
        .map(|i| ((i as u64).wrapping_mul(2654435761) >> 7) as u8 ^ (i / 251) as u8)
        .collect();
    let sched = gen_sched(&mut k);
    let mut o = rng.sub("ops");
    let nops = o.urange(1, 120);
    let mut ops = vec![];
    for _ in 0..nops {
        let op = match o.weighted(&[25, 12, 18, 20, 4, 6, 2, 13]) {
            0 => Op::Fill,
            1 => Op::Consume(match o.below(4) {
                0 => 0,
                1 => o.usize(16),
                2 => o.usize(capacity),
                _ => o.usize(2 * capacity + 10),
            }),
            2 => Op::ConsumeRel(match o.below(4) {
                0 => 0,
                1 => -(o.below(20) as i64),
                2 => o.below(20) as i64,
                _ => -(o.below(low_mark as u64 + 1) as i64),
            }),
            3 => Op::Read(match o.below(4) {
                0 => 0,
                1 => 1 + o.usize(16),
                2 => o.usize(capacity),
                _ => o.usize(3 * capacity),
            }),
            4 => Op::SeekStart(o.below(len as u64 + 20)),
            5 => Op::SeekCur(o.range(0, 2 * capacity as u64) as i64 - capacity as i64),
            6 => Op::SeekEnd(-(o.below(len as u64 + 5) as i64)),
            _ => Op::SeekRel(o.range(0, 2 * 8192) as i64 - 8192),
        };
        ops.push(op);
    }
    Case::Reader {
        src,
        capacity,
        low_mark,
        sched,
        ops,
    }
}

struct Ref {
    msgs: Vec<DltMessage>,
    /// byte offset at which message k starts, bytes skipped before it
    starts: Vec<(usize, usize)>,
    processed: usize,
    skipped: usize,
    det: (bool, bool),
}

fn reference(bytes: &[u8], start_index: u32) -> Ref {
    let mut it = DltMessageIterator::new(start_index, bytes);
    let mut msgs = vec![];
    let mut starts = vec![];
    while let Some(m) = it.next() {
        let hdr = if it.detected_storage_header { 16 } else { 4 };
        let size = hdr + m.standard_header.len as usize;
        starts.push((it.bytes_processed - size, it.bytes_skipped));
        msgs.push(m);
    }
    Ref {
        msgs,
        starts,
        processed: it.bytes_processed,
        skipped: it.bytes_skipped,
        det: (it.detected_storage_header, it.detected_serial_header),
    }
}

fn run_parser(
    framing: Framing,
    items: &[Item],
    cut: Option<usize>,
    readers: &[ReaderCfg],
    suffixes: &[usize],
    ctx: &mut Ctx,
) -> Result<(), Violation> {
    let img = assemble(items, framing);
    let mut b = img.bytes;
    if let Some(c) = cut {
        b.truncate(c);
    }
    let bounds: Arc<Vec<usize>> = Arc::new(img.msgs.iter().map(|(o, l)| o + l).collect());
    let bytes = Arc::new(b);
    let start_index = 5u32;
    let r0 = reference(&bytes, start_index);
    ctx.sig.u64(bytes.len() as u64);
    ctx.sig.u64(crate::rng::fnv1a(&bytes[..std::cmp::min(bytes.len(), 8192)]));
    ctx.sim_time(bytes.len() as u128);
    ctx.event_u64(r0.msgs.len() as u64);
    ctx.event_u64(r0.processed as u64);
    if marker_positions(&bytes).len() > img.msgs.len() {
        ctx.probe("embedded_or_foreign_markers");
    }
    if r0.msgs.len() != img.msgs.len() {
        ctx.probe("reference_differs_from_generated_count");
    }
    if r0.msgs.iter().any(|m| m.standard_header.len as usize + 16 >= DLT_MAX_STORAGE_MSG_SIZE - 3) {
        ctx.probe("msg_within_4_bytes_of_low_mark");
    }
    ctx.cfg("short_reads");
    for (ri, r) in readers.iter().enumerate() {
        let res = iterate(&bytes, &bounds, start_index, r);
        ctx.fired_n("short_reads", res.short_reads);
        if matches!(r, ReaderCfg::LowMark { sched: Sched::Adversarial { .. }, .. }) {
            ctx.probe("adversarial_schedule_runs");
        }
        let tag = format!("reader#{} {:?}", ri, r);
        let n = std::cmp::min(res.msgs.len(), r0.msgs.len());
        for k in 0..n {
            if res.msgs[k] != r0.msgs[k] {
                viol!(
                    "chunking-dependent-message",
                    "{}: message {} differs from the whole-slice reference (index {} len {} vs index {} len {})",
                    tag, k, res.msgs[k].index, res.msgs[k].standard_header.len, r0.msgs[k].index, r0.msgs[k].standard_header.len
                );
            }
        }
        if res.msgs.len() != r0.msgs.len() {
            viol!(
                "chunking-dependent-count",
                "{}: {} messages vs {} in the whole-slice reference",
                tag, res.msgs.len(), r0.msgs.len()
            );
        }
        if res.processed != r0.processed || res.skipped != r0.skipped {
            viol!(
                "chunking-dependent-counters",
                "{}: processed/skipped {}/{} vs {}/{}",
                tag, res.processed, res.skipped, r0.processed, r0.skipped
            );
        }
        if (res.det_storage, res.det_serial) != r0.det {
            viol!("chunking-dependent-framing", "{}: flags differ", tag);
        }
    }
    // suffix runs
    for s in suffixes {
        if r0.msgs.is_empty() {
            break;
        }
        let k = s % r0.msgs.len();
        let (off, skipped_before) = r0.starts[k];
        let rs = reference(&bytes[off..], r0.msgs[k].index);
        ctx.probe("suffix_runs");
        if rs.msgs.len() != r0.msgs.len() - k {
            viol!(
                "position-dependent-count",
                "suffix from message {} (offset {}): {} messages vs {}",
                k, off, rs.msgs.len(), r0.msgs.len() - k
            );
        }
        for (j, m) in rs.msgs.iter().enumerate() {
            if *m != r0.msgs[k + j] {
                viol!("position-dependent-message", "suffix from message {}: message {} differs", k, j);
            }
        }
        if rs.processed != r0.processed - off || rs.skipped != r0.skipped - skipped_before {
            viol!(
                "position-dependent-counters",
                "suffix from message {}: processed/skipped {}/{} vs {}/{}",
                k, rs.processed, rs.skipped, r0.processed - off, r0.skipped - skipped_before
            );
        }
    }
    ctx.nontrivial = !r0.msgs.is_empty();
    Ok(())
}

fn run_reader(
    src: &[u8],
    capacity: usize,
    low_mark: usize,
    sched: &Sched,
    ops: &[Op],
    ctx: &mut Ctx,
) -> Result<(), Violation> {
    if low_mark == 0 || low_mark + 4096 > capacity {
        return Ok(());
    }
    let data = Arc::new(src.to_vec());
    let source = ScriptedSource::new(data.clone(), sched.clone(), Arc::new(vec![]));
    let counts = source.counts.clone();
    let mut rd = LowMarkBufReader::new(source, capacity, low_mark);
    let mut p: usize = 0; // model position
    let n = src.len();
    ctx.sig.u64(n as u64);
    ctx.sig.u64(capacity as u64);
    ctx.sig.u64(low_mark as u64);
    ctx.sig.u64(ops.len() as u64);
    ctx.cfg("short_reads");
    ctx.sim_time(ops.len() as u128);
    let check_slice = |s: &[u8], p: usize, what: &str, i: usize| -> Result<(), Violation> {
        if p + s.len() > n {
            viol!("reader-beyond-source", "op#{} {}: slice of {} at {} exceeds source {}", i, what, s.len(), p, n);
        }
        if s != &src[p..p + s.len()] {
            let d = s.iter().zip(src[p..].iter()).position(|(a, b)| a != b).unwrap_or(0);
            viol!(
                "reader-wrong-bytes",
                "op#{} {}: bytes at position {} differ from the source (first difference at +{})",
                i, what, p, d
            );
        }
        Ok(())
    };
    for (i, op) in ops.iter().enumerate() {
        match op {
            Op::Fill => {
                let s = rd.fill_buf().map_err(|e| Violation::new("reader-io-error", e.to_string()))?;
                let l = s.len();
                check_slice(s, p, "fill_buf", i)?;
                let (_, _, zero) = counts.get();
                let want = std::cmp::min(low_mark, n.saturating_sub(p));
                if l < want && zero == 0 {
                    viol!(
                        "reader-below-low-mark",
                        "op#{} fill_buf: {} bytes available at {} but low mark {} and the source never signalled EOF",
                        i, l, p, low_mark
                    );
                }
                if zero > 0 && p <= n && l != n - p {
                    viol!("reader-early-eof", "op#{} fill_buf: {} bytes at {} of {} after EOF", i, l, p, n);
                }
                if l == 0 && p < n {
                    viol!("reader-early-eof", "op#{} fill_buf: empty at {} of {}", i, p, n);
                }
                ctx.event_u64(l as u64);
            }
            Op::Consume(k) => {
                let l = rd.buffer().len();
                rd.consume(*k);
                p += std::cmp::min(*k, l);
                if *k > l {
                    ctx.probe("consume_beyond_buffer");
                }
            }
            Op::ConsumeRel(d) => {
                let l = rd.buffer().len();
                let k = (l as i64 + d).max(0) as usize;
                rd.consume(k);
                p += std::cmp::min(k, l);
            }
            Op::Read(k) => {
                let mut buf = vec![0u8; *k];
                let got = rd.read(&mut buf).map_err(|e| Violation::new("reader-io-error", e.to_string()))?;
                if got > *k {
                    viol!("reader-read-overrun", "op#{} read({}) returned {}", i, k, got);
                }
                check_slice(&buf[..got], p, "read", i)?;
                if got == 0 && *k > 0 && p < n {
                    viol!("reader-early-eof", "op#{} read({}) returned 0 at {} of {}", i, k, p, n);
                }
                p += got;
                ctx.event_u64(got as u64);
            }
            Op::SeekStart(_) | Op::SeekCur(_) | Op::SeekEnd(_) | Op::SeekRel(_) => {
                let (sf, target): (SeekFrom, i128) = match op {
                    Op::SeekStart(q) => (SeekFrom::Start(*q), *q as i128),
                    Op::SeekCur(d) => (SeekFrom::Current(*d), p as i128 + *d as i128),
                    Op::SeekEnd(d) => (SeekFrom::End(*d), n as i128 + *d as i128),
                    Op::SeekRel(d) => {
                        let t = (p as i128 + *d as i128).max(0);
                        (SeekFrom::Start(t as u64), t)
                    }
                    _ => unreachable!(),
                };
                match rd.seek(sf) {
                    Ok(r) => {
                        ctx.probe("seek_accepted");
                        if target >= 0 && r as i128 != target {
                            viol!("reader-seek-result", "op#{} {:?}: returned {} for target {}", i, op, r, target);
                        }
                        if (r as usize) < p {
                            ctx.probe("backward_seek_accepted");
                        }
                        p = r as usize;
                        // the bytes handed out next must be the source's bytes at r
                        let s = rd.buffer();
                        let s = s.to_vec();
                        if p <= n {
                            check_slice(&s, p, "buffer after seek", i)?;
                        } else if !s.is_empty() {
                            viol!("reader-wrong-bytes", "op#{} bytes buffered beyond the source end", i);
                        }
                    }
                    Err(_) => {
                        ctx.probe("seek_refused");
                    }
                }
            }
        }
    }
    let (_, short, _) = counts.get();
    ctx.fired_n("short_reads", short);
    ctx.nontrivial = ops.len() > 1 && n > 0;
    Ok(())
}

pub struct C04;
impl Check for C04 {
    type Case = Case;
    const ID: &'static str = "C04";
    fn runs(t: Tier) -> u64 {
        t.pick(24_000, 1_200_000)
    }
    fn generate(rng: &mut Rng, tier: Tier, idx: u64) -> Case {
        if idx % 3 == 2 {
            gen_reader_case(rng, tier)
        } else {
            gen_parser_case(rng, tier, idx / 3)
        }
    }
    fn run(c: &Case, ctx: &mut Ctx) -> Result<(), Violation> {
        match c {
            Case::Parser {
                framing,
                items,
                cut,
                readers,
                suffixes,
            } => {
                ctx.sig.u64(1);
                run_parser(*framing, items, *cut, readers, suffixes, ctx)
            }
            Case::Reader {
                src,
                capacity,
                low_mark,
                sched,
                ops,
            } => {
                ctx.sig.u64(2);
                run_reader(src, *capacity, *low_mark, sched, ops, ctx)
            }
        }
    }
    fn shrink(c: &Case) -> Vec<Case> {
        let mut out = vec![];
        match c {
            Case::Parser {
                framing,
                items,
                cut,
                readers,
                suffixes,
            } => {
                let mk = |items: Vec<Item>, cut: Option<usize>, readers: Vec<ReaderCfg>, suffixes: Vec<usize>| Case::Parser {
                    framing: *framing,
                    items,
                    cut,
                    readers,
                    suffixes,
                };
                for it in shrink_vec(items) {
                    out.push(mk(it, *cut, readers.clone(), suffixes.clone()));
                }
                if cut.is_some() {
                    out.push(mk(items.clone(), None, readers.clone(), suffixes.clone()));
                }
                if readers.len() > 1 {
                    for i in 0..readers.len() {
                        let mut r = readers.clone();
                        r.remove(i);
                        out.push(mk(items.clone(), *cut, r, suffixes.clone()));
                    }
                }
                if !suffixes.is_empty() {
                    out.push(mk(items.clone(), *cut, readers.clone(), vec![]));
                    for s in suffixes {
                        out.push(mk(items.clone(), *cut, readers.clone(), vec![*s]));
                    }
                }
                for (i, it) in items.iter().enumerate() {
                    if let Item::Noise(n) = it {
                        if n.len() > 1 {
                            let mut its = items.clone();
                            its[i] = Item::Noise(n[..n.len() / 2].to_vec());
                            out.push(mk(its, *cut, readers.clone(), suffixes.clone()));
                            let mut its = items.clone();
                            its[i] = Item::Noise(n[n.len() / 2..].to_vec());
                            out.push(mk(its, *cut, readers.clone(), suffixes.clone()));
                        }
                    }
                }
            }
            Case::Reader {
                src,
                capacity,
                low_mark,
                sched,
                ops,
            } => {
                for o in shrink_vec(ops) {
                    out.push(Case::Reader {
                        src: src.clone(),
                        capacity: *capacity,
                        low_mark: *low_mark,
                        sched: sched.clone(),
                        ops: o,
                    });
                }
                if !matches!(sched, Sched::All) {
                    out.push(Case::Reader {
                        src: src.clone(),
                        capacity: *capacity,
                        low_mark: *low_mark,
                        sched: Sched::All,
                        ops: ops.clone(),
                    });
                }
                if src.len() > 1 {
                    for l in [src.len() / 2, src.len() - 1] {
                        out.push(Case::Reader {
                            src: src[..l].to_vec(),
                            capacity: *capacity,
                            low_mark: *low_mark,
                            sched: sched.clone(),
                            ops: ops.clone(),
                        });
                    }
                }
            }
        }
        out
    }
    fn sample(c: &Case) -> serde_json::Value {
        serde_json::to_value(c).unwrap()
    }
    fn finding_key(_c: &Case, _v: &Violation) -> Option<String> {
        None
    }
    fn rule() -> &'static str {
        "two kinds of runs: (i) a generated byte image (valid messages, embedded/foreign markers, corrupted and truncated messages, near-maximum messages placed at the buffer edge) parsed once from the whole slice and then through 4-5 LowMarkBufReader geometries x scripted read schedules (1 byte, fixed, random, bursty, adversarial 'stop j bytes after the next message') plus 3 suffix runs; (ii) a random history of fill_buf/consume/read/seek on LowMarkBufReader over a scripted source checked against a position model; non-trivial = reference found a message / history longer than 1 op on a non-empty source; distinct = hash of image or (source length, geometry, #ops)"
    }
    fn assumptions() -> Vec<&'static str> {
        vec![
            "the whole-slice run is the reference ('everything visible at once')",
            "I/O errors of the source are outside the quantifier; a refused seek is acceptable, wrong bytes after an accepted seek are not",
            "the low mark is the value the real callers pass (DLT_MAX_STORAGE_MSG_SIZE)",
        ]
    }
    fn real_components() -> Vec<&'static str> {
        vec![
            "adlt::utils::LowMarkBufReader",
            "adlt::utils::DltMessageIterator",
            "adlt::dlt::parse_dlt_with_storage_header/_serial_header",
        ]
    }
    fn stub_components() -> Vec<&'static str> {
        vec!["underlying reader (ScriptedSource)", "image generator"]
    }
    fn required_reach() -> Vec<&'static str> {
        vec![
            "short_reads",
            "embedded_or_foreign_markers",
            "msg_within_4_bytes_of_low_mark",
            "backward_seek_accepted",
            "seek_refused",
            "suffix_runs",
        ]
    }
}

#[allow(dead_code)]
fn _unused(_: &mut dyn Read) {
    let _ = gen_sched;
}
