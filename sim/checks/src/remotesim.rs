//! E5 `remotesim`: the remote server (real process_incoming_text_message / process_file_context /
//! FileContext / parser threads, behind the H2 loop replica) under a simulated websocket client,
//! transport and clock. Used by C15 and C16.

use crate::fw::{Ctx, Violation};
use crate::rng::Rng;
use crate::sh::{self, SchedCfg};
use crate::world::*;
use adlt::utils::remote_types::BinType;
use adlt_verif_seam::simstream::{duplex, SimStream};
use adlt_verif_seam::std as sstd;
use serde::{Deserialize, Serialize};
use std::path::PathBuf;
use tungstenite::protocol::{Role, WebSocket};
use tungstenite::Message;

#[allow(dead_code, unused_imports, clippy::all)]
#[path = "/repo/src/bin/adlt/remote.rs"]
pub mod remote;

/// reference to a stream of the session
#[derive(Clone, Debug, Serialize, Deserialize, PartialEq)]
pub enum SRef {
    /// the k-th stream/query id announced so far (counting change_window ids too); modulo the number known
    Known(usize),
    /// an id that was never announced
    Unknown(u32),
    /// not a number at all
    Garbage(String),
    /// parameter missing
    Missing,
}

#[derive(Clone, Debug, Serialize, Deserialize)]
pub enum Cmd {
    /// open the session's file; variant 0 = valid, others = malformed flavours
    Open { variant: u8, sort: bool, collect: String },
    Close,
    Pause,
    Resume,
    /// stream or query with a raw body (valid or not)
    Stream { query: bool, body: String },
    Stop(SRef),
    ChangeWindow(SRef, String),
    BinarySearch(SRef, String),
    Search(SRef, Option<String>),
    PluginCmd(String),
    Fs(String),
    Raw(String),
    /// page through a search with the returned continuation position (client-side loop)
    SearchPaged { r: SRef, filters: String, start_idx: usize, max_results: usize },
    /// let the server run: n polls of the client's socket
    Wait(usize),
    /// wait until the server reported that all messages were parsed (bounded)
    WaitParsed,
}

#[derive(Clone, Debug)]
pub struct MsgRec {
    pub index: u32,
    pub reception_time: u64,
    pub timestamp_dms: u32,
    pub ecu: u32,
    pub apid: u32,
    pub ctid: u32,
    pub mcnt: u8,
    pub text: String,
}

#[derive(Clone, Debug)]
pub enum Ev {
    Sent { cmd_no: usize, text: String },
    Reply { cmd_no: usize, text: String },
    NoReply { cmd_no: usize },
    Msgs { id: u32, msgs: Vec<MsgRec> },
    TextMsg { id: u32, pos: usize },
    FileInfo(u32),
    StreamInfo { id: u32, nr_stream_msgs: u32, processed: u32, total: u32 },
    /// lifecycle updates: (id, ecu, nr_msgs, start_time, end_time)
    Lifecycles(Vec<(u32, u32, u32, u64, u64)>),
    Other,
}

#[derive(Clone, Debug, Default)]
pub struct Transcript {
    pub events: Vec<Ev>,
    pub server_reason: String,
    pub server_iterations: usize,
    pub client_finished: bool,
}

#[derive(Clone, Debug, Serialize, Deserialize)]
pub struct Session {
    pub trace: Vec<TMsg>,
    pub cmds: Vec<Cmd>,
    pub sched: SchedCfg,
    /// max bytes per read of the server's socket (0 = unlimited): short reads of websocket frames
    pub server_max_read: usize,
    pub poll_budget: usize,
}

pub fn root_dir() -> PathBuf {
    let base = std::env::var("VERIF_TMP").unwrap_or_else(|_| "/verif/sim/target/tmp".to_string());
    PathBuf::from(base).join(format!("rs-{}", std::process::id()))
}

fn decode_bin(b: &[u8]) -> Ev {
    let cfg = bincode::config::legacy();
    match bincode::decode_from_slice::<BinType, _>(b, cfg) {
        Ok((BinType::DltMsgs((id, msgs)), _)) => Ev::Msgs {
            id,
            msgs: msgs
                .iter()
                .map(|m| MsgRec { index: m.index, reception_time: m.reception_time, timestamp_dms: m.timestamp_dms, ecu: m.ecu, apid: m.apid, ctid: m.ctid, mcnt: m.mcnt, text: m.payload_as_text.to_string() })
                .collect(),
        },
        Ok((BinType::FileInfo(f), _)) => Ev::FileInfo(f.nr_msgs),
        Ok((BinType::Lifecycles(l), _)) => Ev::Lifecycles(l.iter().map(|x| (x.id, x.ecu, x.nr_msgs, x.start_time, x.end_time)).collect()),
        Ok((BinType::StreamInfo(s), _)) => Ev::StreamInfo { id: s.stream_id, nr_stream_msgs: s.nr_stream_msgs, processed: s.nr_file_msgs_processed, total: s.nr_file_msgs_total },
        _ => Ev::Other,
    }
}

fn parse_async_text(t: &str) -> Option<Ev> {
    // "stream:<id> msg(<pos>):..."
    let rest = t.strip_prefix("stream:")?;
    let (id, rest) = rest.split_once(' ')?;
    let pos = rest.strip_prefix("msg(")?.split_once(')')?.0;
    Some(Ev::TextMsg { id: id.parse().ok()?, pos: pos.parse().ok()? })
}

/// id announced by an ok reply of stream/query/stream_change_window
pub fn announced_id(reply: &str) -> Option<u32> {
    if !reply.starts_with("ok:") {
        return None;
    }
    let i = reply.find("\"id\":")?;
    let rest = &reply[i + 5..];
    let digits: String = rest.chars().skip_while(|c| *c == ' ').take_while(|c| c.is_ascii_digit()).collect();
    digits.parse().ok()
}

pub fn sref_text(r: &SRef, known: &[u32]) -> String {
    match r {
        SRef::Known(k) => {
            if known.is_empty() {
                "4000000".to_string()
            } else {
                known[k % known.len()].to_string()
            }
        }
        SRef::Unknown(x) => (3_000_000 + x).to_string(),
        SRef::Garbage(s) => s.clone(),
        SRef::Missing => String::new(),
    }
}

pub fn cmd_text(c: &Cmd, file: &str, known: &[u32]) -> Option<String> {
    Some(match c {
        Cmd::Open { variant, sort, collect } => match variant {
            0 => format!(r#"open {{"files":["{}"],"sort":{},"collect":{}}}"#, file, sort, collect),
            1 => "open".to_string(),
            2 => "open {\"files\":".to_string(),
            3 => r#"open {"files":[]}"#.to_string(),
            4 => r#"open {"files":"notanarray"}"#.to_string(),
            5 => r#"open {"files":[42]}"#.to_string(),
            6 => format!(r#"open {{"files":["{}.doesnotexist"]}}"#, file),
            7 => format!(r#"open {{"files":["{}"],"collect":"bogus"}}"#, file),
            8 => format!(r#"open {{"files":["{}"],"plugins":"x"}}"#, file),
            // well-formed variants with other inputs (written next to the trace by run_session)
            10 => format!(r#"open {{"files":["{}","{}"],"sort":{},"collect":{}}}"#, file, file, sort, collect),
            11 => format!(r#"open {{"files":["{}","{}"],"sort":{},"collect":{}}}"#, file.replace("trace.dlt", "trace2.dlt"), file, sort, collect),
            12 => format!(r#"open {{"files":["{}"],"sort":{},"collect":{}}}"#, file.replace("trace.dlt", "logcat.txt"), sort, collect),
            13 => format!(r#"open {{"files":["{}"],"sort":{},"collect":{}}}"#, file.replace("trace.dlt", "can.asc"), sort, collect),
            14 => format!(r#"open {{"files":["{}","{}"],"sort":{},"collect":{}}}"#, file, file.replace("trace.dlt", "logcat.txt"), sort, collect),
            15 => format!(r#"open {{"files":["{}"],"sort":{},"collect":{}}}"#, file.replace("trace.dlt", "generic.log"), sort, collect),
            // two plugins of the same name
            17 => format!(r#"open {{"files":["{}"],"sort":{},"collect":{},"plugins":[{},{}]}}"#, file, sort, collect, crate::plug::rewrite_cfg(), crate::plug::rewrite_cfg()),
            18 => format!(r#"open {{"files":["{}"],"sort":{},"collect":{},"plugins":[{{"name":"FileTransfer"}},{{"name":"FileTransfer","keepFLDA":true}}]}}"#, file, sort, collect),
            // the trace inside a zip archive: extraction runs in its own thread before parsing starts
            16 => format!(r#"open {{"files":["{}!/trace.dlt"],"sort":{},"collect":{}}}"#, file.replace("trace.dlt", "trace.zip"), sort, collect),
            _ => format!(r#"open {{"files":["{}"],"plugins":[{{"name":"FileTransfer"}},{{"name":"Rewrite","rewrites":[]}},7]}}"#, file),
        },
        Cmd::Close => "close".to_string(),
        Cmd::Pause => "pause".to_string(),
        Cmd::Resume => "resume".to_string(),
        Cmd::Stream { query, body } => format!("{} {}", if *query { "query" } else { "stream" }, body),
        Cmd::Stop(r) => format!("stop {}", sref_text(r, known)).trim_end().to_string(),
        Cmd::ChangeWindow(r, w) => format!("stream_change_window {} {}", sref_text(r, known), w).trim_end().to_string(),
        Cmd::BinarySearch(r, w) => format!("stream_binary_search {} {}", sref_text(r, known), w).trim_end().to_string(),
        Cmd::Search(r, body) => match body {
            Some(b) => format!("stream_search {} {}", sref_text(r, known), b),
            None => format!("stream_search {}", sref_text(r, known)),
        },
        Cmd::PluginCmd(b) => format!("plugin_cmd {}", b).trim_end().to_string(),
        Cmd::Fs(b) => format!("fs {}", b.replace("@ROOT@", file.trim_end_matches("/trace.dlt"))).trim_end().to_string(),
        Cmd::Raw(s) => s.clone(),
        Cmd::SearchPaged { r, filters, start_idx, max_results } => format!(r#"stream_search {} {{"filters":{},"start_idx":{},"max_results":{}}}"#, sref_text(r, known), filters, start_idx, max_results),
        Cmd::Wait(_) | Cmd::WaitParsed => return None,
    })
}

/// run one session; everything inside one shuttle execution
pub fn run_session(s: &Session, ctx: &mut Ctx) -> Result<Transcript, Violation> {
    let root = root_dir();
    let _ = std::fs::remove_dir_all(&root);
    std::fs::create_dir_all(&root).unwrap();
    let file = root.join("trace.dlt");
    std::fs::write(&file, to_bytes(&s.trace)).unwrap();
    if s.cmds.iter().any(|c| matches!(c, Cmd::Fs(b) if b.contains("corrupt.zip"))) {
        std::fs::write(root.join("corrupt.zip"), b"PK\x03\x04 this is not a zip archive PK\x05\x06 at all").unwrap();
    }
    if s.cmds.iter().any(|c| matches!(c, Cmd::Open { variant, .. } if *variant == 16)) {
        use std::io::Write;
        let mut zw = zip::ZipWriter::new(std::fs::File::create(root.join("trace.zip")).unwrap());
        zw.start_file("trace.dlt", zip::write::SimpleFileOptions::default().compression_method(zip::CompressionMethod::Stored)).unwrap();
        zw.write_all(&to_bytes(&s.trace)).unwrap();
        zw.finish().unwrap();
        std::fs::create_dir_all(root.join("tmp")).unwrap();
        std::env::set_var("TMPDIR", root.join("tmp"));
    }
    if s.cmds.iter().any(|c| matches!(c, Cmd::Open { variant, .. } if *variant >= 10)) {
        // a second recording (the last third of the trace, recorded in parallel) and small text inputs
        let t2: Vec<TMsg> = s.trace[s.trace.len() - s.trace.len() / 3..].to_vec();
        std::fs::write(root.join("trace2.dlt"), to_bytes(&t2)).unwrap();
        std::fs::write(root.join("logcat.txt"), "--------- beginning of main\n01-01 00:00:00.000  1234  5678 I Tag: text\n01-01 00:00:01.500  1234  5678 W Other: more text\n  12.500 1 2 E Tag: monotonic\n").unwrap();
        std::fs::write(root.join("can.asc"), "date Wed Oct 19 10:15:25.000 am 2022\nbase hex  timestamps absolute\n// BusMapping: CAN 1 = Body\n   0.100000 1  2dc             Rx   d 8 00 01 02 03 04 05 06 07\n   0.200000 1  2dd             Tx   d 2 AA BB\n").unwrap();
        std::fs::write(root.join("generic.log"), "[2024-01-01 00:00:00.000] [INF] [tag] first\n[2024-01-01 00:00:01.000] [ERR] [other] second\n").unwrap();
    }
    let file_s = file.to_string_lossy().to_string();
    crate::lc::align_lc_ids();
    let out = sh::slot(Transcript::default());
    let out2 = out.clone();
    let cmds = std::sync::Arc::new(s.cmds.clone());
    let total = s.trace.len() as u32;
    let server_max_read = s.server_max_read;
    let budget = s.poll_budget;
    let r = sh::run(&s.sched, ctx, move || {
        let (mut srv_stream, cli_stream): (SimStream, SimStream) = duplex();
        srv_stream.max_read = server_max_read;
        let server = sstd::thread::spawn(move || {
            let log = slog::Logger::root(slog::Discard, slog::o!());
            let mut ws = WebSocket::from_raw_socket(srv_stream, Role::Server, None);
            remote::verif_serve(&log, &mut ws, 3_000_000)
        });
        let cmds = cmds.clone();
        let file_s = file_s.clone();
        let client = sstd::thread::spawn(move || {
            let mut ws = WebSocket::from_raw_socket(cli_stream, Role::Client, None);
            let mut ev: Vec<Ev> = vec![];
            let mut known: Vec<u32> = vec![];
            let mut last_fileinfo = 0u32;
            let mut fileinfo_repeats = 0u32;
            // read frames for up to `polls` empty polls; returns a reply if one arrives and stop_on_reply
            let mut pump = |ws: &mut WebSocket<SimStream>, ev: &mut Vec<Ev>, polls: usize, stop_on_reply: bool, last_fileinfo: &mut u32, fileinfo_repeats: &mut u32| -> Option<String> {
                let mut left = polls;
                loop {
                    match ws.read_message() {
                        Ok(Message::Text(t)) => {
                            if let Some(e) = parse_async_text(&t) {
                                ev.push(e);
                            } else if stop_on_reply {
                                return Some(t);
                            } else {
                                // a reply nobody asked for
                                ev.push(Ev::Reply { cmd_no: usize::MAX, text: t });
                            }
                        }
                        Ok(Message::Binary(b)) => {
                            let e = decode_bin(&b);
                            if let Ev::FileInfo(n) = &e {
                                if *n == *last_fileinfo {
                                    *fileinfo_repeats += 1;
                                } else {
                                    *fileinfo_repeats = 0;
                                }
                                *last_fileinfo = *n;
                            }
                            ev.push(e);
                        }
                        Ok(_) => {}
                        Err(tungstenite::Error::Io(e)) if e.kind() == std::io::ErrorKind::WouldBlock => {
                            if left == 0 {
                                return None;
                            }
                            left -= 1;
                        }
                        Err(_) => return None,
                    }
                }
            };
            for (cmd_no, c) in cmds.iter().enumerate() {
                match c {
                    Cmd::Wait(n) => {
                        let _ = pump(&mut ws, &mut ev, *n, false, &mut last_fileinfo, &mut fileinfo_repeats);
                    }
                    Cmd::WaitParsed => {
                        // until the final FileInfo (sent twice with the same count once parsing finished) or budget
                        let mut rounds = 0;
                        // (budgets grow with the length of the log: long logs arrive in many partial frames)
                        while !(last_fileinfo >= total && fileinfo_repeats >= 1) && rounds < 400 + if total > 1000 { total as usize * 2 } else { 0 } {
                            let _ = pump(&mut ws, &mut ev, 50, false, &mut last_fileinfo, &mut fileinfo_repeats);
                            rounds += 1;
                        }
                        // and some more loops so that streams can deliver
                        let _ = pump(&mut ws, &mut ev, 300 + if total > 1000 { total as usize * 4 } else { 0 }, false, &mut last_fileinfo, &mut fileinfo_repeats);
                    }
                    Cmd::SearchPaged { r, filters, start_idx, max_results } => {
                        let mut next = Some(*start_idx);
                        let mut pages = 0;
                        while let Some(st) = next {
                            pages += 1;
                            if pages > 2000 + total as usize {
                                break;
                            }
                            let text = cmd_text(&Cmd::SearchPaged { r: r.clone(), filters: filters.clone(), start_idx: st, max_results: *max_results }, &file_s, &known).unwrap();
                            ev.push(Ev::Sent { cmd_no, text: text.clone() });
                            if ws.write_message(Message::Text(text)).is_err() {
                                break;
                            }
                            match pump(&mut ws, &mut ev, budget, true, &mut last_fileinfo, &mut fileinfo_repeats) {
                                Some(reply) => {
                                    next = reply.split_once('=').and_then(|(_, j)| serde_json::from_str::<serde_json::Value>(j).ok()).and_then(|v| v["next_search_idx"].as_u64()).map(|x| x as usize);
                                    ev.push(Ev::Reply { cmd_no, text: reply });
                                }
                                None => {
                                    ev.push(Ev::NoReply { cmd_no });
                                    next = None;
                                }
                            }
                        }
                    }
                    _ => {
                        let text = cmd_text(c, &file_s, &known).unwrap();
                        ev.push(Ev::Sent { cmd_no, text: text.clone() });
                        if ws.write_message(Message::Text(text)).is_err() {
                            break;
                        }
                        match pump(&mut ws, &mut ev, budget, true, &mut last_fileinfo, &mut fileinfo_repeats) {
                            Some(reply) => {
                                if let Some(id) = announced_id(&reply) {
                                    if matches!(c, Cmd::Stream { .. } | Cmd::ChangeWindow(..)) {
                                        known.push(id);
                                    }
                                }
                                ev.push(Ev::Reply { cmd_no, text: reply });
                            }
                            None => {
                                ev.push(Ev::NoReply { cmd_no });
                                break;
                            }
                        }
                    }
                }
            }
            // drain a little, then say goodbye
            let _ = pump(&mut ws, &mut ev, 20, false, &mut last_fileinfo, &mut fileinfo_repeats);
            let _ = ws.close(None);
            let _ = ws.write_pending();
            ev
        });
        let ev = client.join().unwrap();
        let (iters, reason) = server.join().unwrap();
        let mut o = out2.lock().unwrap();
        o.events = ev;
        o.server_iterations = iters;
        o.server_reason = reason.to_string();
        o.client_finished = true;
    });
    if std::env::var("VERIF_KEEP").is_err() {
        let _ = std::fs::remove_dir_all(&root);
    }
    r?;
    let t = out.lock().unwrap().clone();
    Ok(t)
}

pub fn gen_session_trace(rng: &mut Rng, max: usize) -> Vec<TMsg> {
    let mut k = rng.sub("rsknobs");
    let max_msgs = k.urange(20, max);
    let mut knobs = WorldKnobs::gen(&mut k, max_msgs);
    knobs.f_clock_jump = false;
    let (mut trace, _) = gen_world(&mut rng.sub("rsworld"), &knobs);
    trace.truncate(max);
    if trace.is_empty() {
        trace.push(TMsg { ecu: 0, boot: 0, rx_us: WALL_BASE_US, ts: 1, has_ts: true, kind: K_LOG, app: 0, mcnt: 0, n: 1, flags: 0 });
    }
    trace
}
