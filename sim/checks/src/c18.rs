//! C18 — Verbose payloads: encode/decode agreement and canonical text; truncation/corruption
//! of the stored payload enumerated per case (E1, fault enumeration).

use crate::fw::{hexbytes, shrink_vec, Check, Ctx, Tier, Violation};
use crate::rng::Rng;
use crate::viol;
use adlt::dlt::{DltArg, DltChar4, DltExtendedHeader, DltMessage, DltStandardHeader};
use adlt::serde_verb_payload::{add_to_serializer, DltVerbArgTypeWrapper, Serializer};
use adlt::utils::{payload_from_args, DltMessageIterator};
use serde::{Deserialize, Serialize};

#[derive(Clone, Debug, Serialize, Deserialize)]
pub enum Val {
    Bool(bool),
    I8(i8),
    I16(i16),
    I32(i32),
    I64(i64),
    U8(u8),
    U16(u16),
    U32(u32),
    U64(u64),
    F32(u32),
    F64(u64),
    Str(String),
    /// ASCII-coded string: arbitrary bytes (a terminating NUL is added by the encoder)
    Ascii(#[serde(with = "hexbytes")] Vec<u8>),
    /// UTF-8-coded string whose bytes are not necessarily valid UTF-8 (a sender mislabelling its encoding)
    Utf8Bytes(#[serde(with = "hexbytes")] Vec<u8>),
    Raw(#[serde(with = "hexbytes")] Vec<u8>),
}

#[derive(Clone, Debug, Serialize, Deserialize)]
pub struct Case {
    pub vals: Vec<Val>,
    pub big_endian: bool,
    /// 0 = serde serializer / dlt_args! machinery (host byte order only), 1 = payload_from_args
    pub encoder: u8,
    /// restrict the enumerated faults (shrinking): None = all
    pub only_fault: Option<(u8, usize, u32)>,
}

const TI_BOOL: u32 = 0x10;
const TI_SINT: u32 = 0x20;
const TI_UINT: u32 = 0x40;
const TI_FLOA: u32 = 0x80;
const TI_STRG: u32 = 0x200;
const TI_RAWD: u32 = 0x400;
const SCOD_UTF8: u32 = 0x8000;

impl Val {
    fn type_info(&self) -> u32 {
        match self {
            Val::Bool(_) => TI_BOOL | 1,
            Val::I8(_) => TI_SINT | 1,
            Val::I16(_) => TI_SINT | 2,
            Val::I32(_) => TI_SINT | 3,
            Val::I64(_) => TI_SINT | 4,
            Val::U8(_) => TI_UINT | 1,
            Val::U16(_) => TI_UINT | 2,
            Val::U32(_) => TI_UINT | 3,
            Val::U64(_) => TI_UINT | 4,
            Val::F32(_) => TI_FLOA | 3,
            Val::F64(_) => TI_FLOA | 4,
            Val::Str(_) => TI_STRG | SCOD_UTF8,
            Val::Ascii(_) => TI_STRG,
            Val::Utf8Bytes(_) => TI_STRG | SCOD_UTF8,
            Val::Raw(_) => TI_RAWD,
        }
    }
    /// raw value bytes as stored in the payload
    fn raw(&self, be: bool) -> Vec<u8> {
        macro_rules! n {
            ($v:expr) => {
                if be { $v.to_be_bytes().to_vec() } else { $v.to_le_bytes().to_vec() }
            };
        }
        match self {
            Val::Bool(b) => vec![*b as u8],
            Val::I8(v) => n!(v),
            Val::I16(v) => n!(v),
            Val::I32(v) => n!(v),
            Val::I64(v) => n!(v),
            Val::U8(v) => n!(v),
            Val::U16(v) => n!(v),
            Val::U32(v) => n!(v),
            Val::U64(v) => n!(v),
            Val::F32(v) => n!(v),
            Val::F64(v) => n!(v),
            Val::Str(s) => {
                let mut b = s.as_bytes().to_vec();
                b.push(0);
                b
            }
            Val::Ascii(a) | Val::Utf8Bytes(a) => {
                let mut b = a.clone();
                b.push(0);
                b
            }
            Val::Raw(r) => r.clone(),
        }
    }
    fn has_len_prefix(&self) -> bool {
        matches!(self, Val::Str(_) | Val::Ascii(_) | Val::Utf8Bytes(_) | Val::Raw(_))
    }
    /// canonical text rendering (independent of adlt's)
    fn text(&self) -> String {
        fn ws(s: String) -> String {
            s.chars().map(|c| if c == '\r' || c == '\n' || c == '\t' { ' ' } else { c }).collect()
        }
        match self {
            Val::Bool(b) => if *b { "true".into() } else { "false".into() },
            Val::I8(v) => v.to_string(),
            Val::I16(v) => v.to_string(),
            Val::I32(v) => v.to_string(),
            Val::I64(v) => v.to_string(),
            Val::U8(v) => v.to_string(),
            Val::U16(v) => v.to_string(),
            Val::U32(v) => v.to_string(),
            Val::U64(v) => v.to_string(),
            Val::F32(v) => format!("{}", f32::from_bits(*v)),
            Val::F64(v) => format!("{}", f64::from_bits(*v)),
            Val::Str(s) => ws(s.clone()),
            Val::Ascii(a) => ws(a.iter().map(|b| cp1252(*b)).collect()),
            Val::Utf8Bytes(a) => ws(String::from_utf8_lossy(a).to_string()),
            Val::Raw(r) => r.iter().map(|b| format!("{:02x}", b)).collect::<Vec<_>>().join(" "),
        }
    }
}

/// Windows-1252 as defined by the WHATWG encoding standard
fn cp1252(b: u8) -> char {
    const T: [u16; 32] = [
        0x20AC, 0x0081, 0x201A, 0x0192, 0x201E, 0x2026, 0x2020, 0x2021, 0x02C6, 0x2030, 0x0160, 0x2039, 0x0152, 0x008D, 0x017D, 0x008F,
        0x0090, 0x2018, 0x2019, 0x201C, 0x201D, 0x2022, 0x2013, 0x2014, 0x02DC, 0x2122, 0x0161, 0x203A, 0x0153, 0x009D, 0x017E, 0x0178,
    ];
    if (0x80..0xA0).contains(&b) {
        char::from_u32(T[(b - 0x80) as usize] as u32).unwrap()
    } else {
        b as char
    }
}

fn gen_val(rng: &mut Rng) -> Val {
    fn ext<T: Copy>(rng: &mut Rng, xs: &[T], r: T) -> T {
        if rng.chance(1, 2) { *rng.pick(xs) } else { r }
    }
    match rng.below(15) {
        14 => {
            let l = match rng.below(5) { 0 => 1, 4 => rng.urange(100, 400), _ => rng.urange(2, 30) };
            Val::Utf8Bytes((0..l).map(|_| match rng.below(6) { 0 => *rng.pick(&[0xffu8, 0xc3, 0xe2, 0x80, 0xf0, 0xc0]), 1 => *rng.pick(&[b'\r', b'\n', b'\t']), 2 => 0xa4, _ => 0x20 + rng.u8() % 0x5f }).collect())
        }
        0 => Val::Bool(rng.bool()),
        1 => { let r = rng.u8() as i8; Val::I8(ext(rng, &[0, -1, i8::MIN, i8::MAX], r)) }
        2 => { let r = rng.u32() as i16; Val::I16(ext(rng, &[0, -1, i16::MIN, i16::MAX], r)) }
        3 => { let r = rng.u32() as i32; Val::I32(ext(rng, &[0, -1, i32::MIN, i32::MAX], r)) }
        4 => { let r = rng.next_u64() as i64; Val::I64(ext(rng, &[0, -1, i64::MIN, i64::MAX], r)) }
        5 => { let r = rng.u8(); Val::U8(ext(rng, &[0, 1, u8::MAX], r)) }
        6 => { let r = rng.u32() as u16; Val::U16(ext(rng, &[0, 256, u16::MAX], r)) }
        7 => { let r = rng.u32(); Val::U32(ext(rng, &[0, 0x01020304, u32::MAX], r)) }
        8 => { let r = rng.next_u64(); Val::U64(ext(rng, &[0, u64::MAX, 1 << 32], r)) }
        9 => {
            let r = rng.u32();
            Val::F32(ext(rng, &[0, 0x8000_0000, f32::NAN.to_bits(), f32::INFINITY.to_bits(), f32::NEG_INFINITY.to_bits(), 1.5f32.to_bits(), f32::MAX.to_bits(), 1], r))
        }
        10 => {
            let r = rng.next_u64();
            Val::F64(ext(rng, &[0, 1 << 63, f64::NAN.to_bits(), f64::INFINITY.to_bits(), f64::NEG_INFINITY.to_bits(), 0.1f64.to_bits(), f64::MIN_POSITIVE.to_bits()], r))
        }
        11 => {
            let l = match rng.below(6) { 0 => 0, 1 => 1, 5 => rng.urange(300, 1200), _ => rng.urange(2, 30) };
            let al = ['a', 'Z', ' ', '\r', '\n', '\t', '\0', '\u{e4}', '\u{20ac}', '\u{1F600}', '0', '%'];
            Val::Str((0..l).map(|_| *rng.pick(&al)).collect())
        }
        12 => {
            let l = match rng.below(6) { 0 => 0, 1 => 1, 5 => rng.urange(300, 1200), _ => rng.urange(2, 30) };
            Val::Ascii((0..l).map(|_| match rng.below(5) { 0 => rng.u8(), 1 => *rng.pick(&[b'\r', b'\n', b'\t', 0u8, 0x80, 0x81, 0xff]), _ => 0x20 + rng.u8() % 0x5f }).collect())
        }
        _ => {
            let l = match rng.below(6) { 0 => 0, 1 => 1, 5 => rng.urange(300, 1200), _ => rng.urange(2, 30) };
            Val::Raw(rng.bytes(l))
        }
    }
}

/// the library's own encoders
fn encode(c: &Case) -> Result<Vec<u8>, String> {
    if c.encoder == 0 {
        let mut s = Serializer { output: vec![] };
        for v in &c.vals {
            let r = match v {
                Val::Bool(x) => add_to_serializer(&mut s, x),
                Val::I8(x) => add_to_serializer(&mut s, x),
                Val::I16(x) => add_to_serializer(&mut s, x),
                Val::I32(x) => add_to_serializer(&mut s, x),
                Val::I64(x) => add_to_serializer(&mut s, x),
                Val::U8(x) => add_to_serializer(&mut s, x),
                Val::U16(x) => add_to_serializer(&mut s, x),
                Val::U32(x) => add_to_serializer(&mut s, x),
                Val::U64(x) => add_to_serializer(&mut s, x),
                Val::F32(x) => add_to_serializer(&mut s, &f32::from_bits(*x)),
                Val::F64(x) => add_to_serializer(&mut s, &f64::from_bits(*x)),
                Val::Str(x) => add_to_serializer(&mut s, &x.as_str()),
                Val::Ascii(x) => {
                    let mut b = x.clone();
                    b.push(0);
                    add_to_serializer(&mut s, &DltVerbArgTypeWrapper::DltScodAscii(serde_bytes::Bytes::new(&b)))
                }
                Val::Raw(x) => add_to_serializer(&mut s, &serde_bytes::Bytes::new(x)),
                Val::Utf8Bytes(_) => return Err("the serde encoder takes &str only".into()),
            };
            r.map_err(|e| format!("{:?}", e))?;
        }
        Ok(s.output)
    } else {
        let raws: Vec<Vec<u8>> = c.vals.iter().map(|v| v.raw(c.big_endian)).collect();
        let args: Vec<DltArg> = c
            .vals
            .iter()
            .zip(raws.iter())
            .map(|(v, r)| DltArg { type_info: v.type_info(), is_big_endian: c.big_endian, payload_raw: r })
            .collect();
        Ok(payload_from_args(&args))
    }
}

fn frame(payload: Vec<u8>, noar: u8, be: bool) -> DltMessage {
    let htyp = 0x20 | 0x01 | 0x04 | 0x10 | if be { 0x02 } else { 0 };
    DltMessage {
        index: 0,
        reception_time_us: 1_700_000_000_000_000,
        ecu: DltChar4::from_buf(b"ECU1"),
        timestamp_dms: 10,
        standard_header: DltStandardHeader { htyp, mcnt: 1, len: (4 + 4 + 4 + 10 + payload.len()) as u16 },
        extended_header: Some(DltExtendedHeader { verb_mstp_mtin: 0x01 | (4 << 4), noar, apid: DltChar4::from_buf(b"APID"), ctid: DltChar4::from_buf(b"CTID") }),
        payload,
        payload_text: None,
        lifecycle: 0,
    }
}

/// write the message and read it back through the real writer/parser
fn roundtrip(m: &DltMessage) -> Result<DltMessage, Violation> {
    let mut b = vec![];
    m.to_write(&mut b).map_err(|e| Violation::new("write-error", e.to_string()))?;
    let mut it = DltMessageIterator::new(0, &b[..]);
    match it.next() {
        Some(x) => Ok(x),
        None => Err(Violation::new("reparse-failed", "framed message not re-read")),
    }
}

fn decode<'a>(m: &'a DltMessage) -> Vec<DltArg<'a>> {
    let mut v = vec![];
    for a in m {
        v.push(a);
    }
    v
}

fn in_bounds(m: &DltMessage, a: &DltArg) -> bool {
    let p0 = m.payload.as_ptr() as usize;
    let p1 = p0 + m.payload.len();
    let a0 = a.payload_raw.as_ptr() as usize;
    let a1 = a0 + a.payload_raw.len();
    a.payload_raw.is_empty() || (a0 >= p0 && a1 <= p1)
}

/// offsets of (type-info word, optional length prefix, value) per argument in the encoded payload
fn layout(c: &Case) -> Vec<(usize, Option<usize>, usize, usize)> {
    let mut off = 0;
    let mut v = vec![];
    for val in &c.vals {
        let ti = off;
        off += 4;
        let lp = if val.has_len_prefix() {
            let l = off;
            off += 2;
            Some(l)
        } else {
            None
        };
        let rl = val.raw(c.big_endian).len();
        v.push((ti, lp, off, rl));
        off += rl;
    }
    v
}

pub struct C18;
impl Check for C18 {
    type Case = Case;
    const ID: &'static str = "C18";
    const LEVEL: &'static str = "fault_enumeration";
    fn runs(t: Tier) -> u64 {
        t.pick(12_000, 600_000)
    }
    fn generate(rng: &mut Rng, _tier: Tier, idx: u64) -> Case {
        if idx % 40 == 17 {
            // maximal strings / raw data around the 16 bit length limit (one value per case)
            let l = *rng.pick(&[65_532usize, 65_533, 65_534, 65_535, 65_536]);
            let v = match rng.below(3) {
                0 => Val::Str("s".repeat(l)),
                1 => Val::Raw(vec![0xabu8; l]),
                _ => Val::Ascii(vec![b'a'; l.saturating_sub(1)]),
            };
            let encoder = rng.below(2) as u8;
            return Case { vals: vec![v], big_endian: encoder == 1 && rng.bool(), encoder, only_fault: None };
        }
        let n = rng.weighted(&[4, 20, 20, 15, 15, 10, 6, 4, 2, 1, 1, 1, 1]);
        let vals: Vec<Val> = (0..n).map(|_| gen_val(rng)).collect();
        let encoder = if vals.iter().any(|v| matches!(v, Val::Utf8Bytes(_))) { 1 } else { rng.below(2) as u8 };
        Case { vals, big_endian: encoder == 1 && rng.bool(), encoder, only_fault: None }
    }
    fn run(c: &Case, ctx: &mut Ctx) -> Result<(), Violation> {
        if c.vals.len() > 255 || (c.encoder == 0 && c.big_endian) {
            return Ok(());
        }
        ctx.sig.u64(c.encoder as u64 ^ ((c.big_endian as u64) << 8));
        for v in &c.vals {
            ctx.sig.u64(v.type_info() as u64);
            ctx.sig.bytes(&v.raw(c.big_endian)[..std::cmp::min(16, v.raw(c.big_endian).len())]);
        }
        let too_large = c.vals.iter().any(|v| v.raw(c.big_endian).len() > 0xffff);
        let payload = match encode(c) {
            Ok(p) => p,
            Err(e) => {
                if too_large {
                    ctx.probe("encoder_rejected_oversized_value");
                    ctx.nontrivial = true;
                    return Ok(()); // a value that does not fit the 16 bit length may be rejected
                }
                return Err(Violation::new("encoder-error", e));
            }
        };
        if too_large && c.encoder == 0 {
            viol!("encoder-accepted-oversized-value", "a value of more than 65535 stored bytes was encoded ({} payload bytes)", payload.len());
        }
        if too_large {
            return Ok(()); // payload_from_args has no error channel; out of the 16 bit range is outside the input space
        }
        if payload.len() > 60_000 {
            // too big to be framed in one message: decode the in-memory message, no write/re-read, no fault enumeration
            ctx.probe("maximal_value");
            ctx.evals += 1;
            let m = frame(payload.clone(), c.vals.len() as u8, c.big_endian);
            let args = decode(&m);
            if args.len() != c.vals.len() {
                viol!("decode-count", "{} values encoded ({} bytes), {} arguments decoded (maximal value)", c.vals.len(), payload.len(), args.len());
            }
            for (i, (a, v)) in args.iter().zip(c.vals.iter()).enumerate() {
                if a.type_info != v.type_info() || a.payload_raw != &v.raw(c.big_endian)[..] {
                    viol!("decode-raw", "argument {}: maximal value differs after decoding", i);
                }
            }
            let want: String = c.vals.iter().map(|v| v.text()).collect::<Vec<_>>().join(" ");
            if m.payload_as_text().map(|t| t != want).unwrap_or(true) {
                viol!("canonical-text", "text of a maximal value differs from the canonical form");
            }
            ctx.nontrivial = true;
            return Ok(());
        }
        let lay = layout(c);
        let expected_len: usize = lay.last().map(|l| l.2 + l.3).unwrap_or(0);
        ctx.sim_time(payload.len() as u128);
        // ---- fault-free configuration
        if c.only_fault.is_none() {
            ctx.evals += 1;
            let m = roundtrip(&frame(payload.clone(), c.vals.len() as u8, c.big_endian))?;
            let args = decode(&m);
            if args.len() != c.vals.len() {
                let cls = if c.encoder == 1 && c.vals.iter().any(|v| v.has_len_prefix() && v.raw(c.big_endian).is_empty()) {
                    "decode-count:payload_from_args-empty-raw-without-length"
                } else {
                    "decode-count"
                };
                viol!(cls, "{} values encoded ({} bytes, expected {}), {} arguments decoded", c.vals.len(), payload.len(), expected_len, args.len());
            }
            for (i, (a, v)) in args.iter().zip(c.vals.iter()).enumerate() {
                if a.type_info != v.type_info() {
                    viol!("decode-type", "argument {}: type info {:#x} but {:#x} was encoded ({:?})", i, a.type_info, v.type_info(), v);
                }
                if a.payload_raw != &v.raw(c.big_endian)[..] {
                    viol!("decode-raw", "argument {}: raw value differs ({:?})", i, v);
                }
                if a.is_big_endian != c.big_endian || !in_bounds(&m, a) {
                    viol!("decode-bounds", "argument {}: byte order flag or slice outside the payload", i);
                }
            }
            let want: String = c.vals.iter().map(|v| v.text()).collect::<Vec<_>>().join(" ");
            let got = m.payload_as_text().map_err(|e| Violation::new("text-error", e.to_string()))?;
            if got != want {
                viol!("canonical-text", "text {:?} but canonical form is {:?}", got, want);
            }
            ctx.event(&got);
        }
        if expected_len != payload.len() {
            // the encoder itself produced something else than the wire layout; faults below assume the layout
            return Ok(());
        }
        // ---- faulted configurations: every truncation point, every single-field corruption
        let orig_raws: Vec<Vec<u8>> = c.vals.iter().map(|v| v.raw(c.big_endian)).collect();
        let check_prefix = |p: Vec<u8>, noar: u8, upto: usize, exact_stop: Option<usize>, what: &str| -> Result<(), Violation> {
            let m = frame(p, noar, c.big_endian);
            let args = decode(&m);
            for (i, a) in args.iter().enumerate() {
                if !in_bounds(&m, a) {
                    viol!("fault-out-of-bounds", "{}: argument {} lies outside the payload", what, i);
                }
                if i < upto {
                    if i >= c.vals.len() || a.type_info != c.vals[i].type_info() || a.payload_raw != &orig_raws[i][..] {
                        viol!("fault-not-prefix", "{}: argument {} differs from the original", what, i);
                    }
                }
            }
            if args.len() < std::cmp::min(upto, c.vals.len()) {
                viol!("fault-prefix-too-short", "{}: only {} arguments decoded, {} intact ones expected", what, args.len(), upto);
            }
            if let Some(n) = exact_stop {
                if args.len() != n {
                    viol!("fault-no-stop", "{}: {} arguments decoded, decoding must stop after {}", what, args.len(), n);
                }
            }
            let _ = m.payload_as_text();
            Ok(())
        };
        let be = c.big_endian;
        let put32 = |p: &mut [u8], o: usize, v: u32| p[o..o + 4].copy_from_slice(&if be { v.to_be_bytes() } else { v.to_le_bytes() });
        let put16 = |p: &mut [u8], o: usize, v: u16| p[o..o + 2].copy_from_slice(&if be { v.to_be_bytes() } else { v.to_le_bytes() });
        let run_fault = |kind: u8, a: usize, b: u32| -> bool {
            match c.only_fault {
                None => true,
                Some((k, x, y)) => k == kind && x == a && y == b,
            }
        };
        // truncation: all points up to 4 KiB, sampled beyond
        ctx.cfg("truncation");
        let step = if payload.len() <= 4096 { 1 } else { 97 };
        let mut k = 0;
        while k < payload.len() {
            if run_fault(0, k, 0) {
                ctx.fired("truncation");
                ctx.evals += 1;
                let intact = lay.iter().take_while(|l| l.2 + l.3 <= k).count();
                // a truncated list is malformed exactly at argument `intact`: decoding must stop there
                check_prefix(payload[..k].to_vec(), c.vals.len() as u8, intact, Some(intact), &format!("truncated at {} of {}", k, payload.len()))?;
            }
            k += step;
        }
        for (i, (ti, lp, _vo, rl)) in lay.iter().enumerate() {
            ctx.cfg("type_info_corruption");
            for (j, nv) in [0u32, 0x0000_0800 | TI_UINT | 3, 0x0000_1000 | TI_FLOA | 3, TI_UINT, TI_FLOA | 1, 0x0000_0100, 0xffff_ffff, TI_STRG, TI_RAWD, TI_BOOL | 3, TI_SINT | 5].iter().enumerate() {
                if *nv == c.vals[i].type_info() || !run_fault(1, i, j as u32) {
                    continue;
                }
                ctx.fired("type_info_corruption");
                ctx.evals += 1;
                let mut p = payload.clone();
                put32(&mut p, *ti, *nv);
                // structurally invalid words must end the list right there
                let invalid = matches!(j, 0 | 1 | 2 | 3 | 4 | 5 | 9);
                check_prefix(p, c.vals.len() as u8, i, if invalid { Some(i) } else { None }, &format!("type info of argument {} set to {:#x}", i, nv))?;
            }
            if let Some(lp) = lp {
                ctx.cfg("length_prefix_corruption");
                let remaining = payload.len() - (lp + 2);
                for (j, nl) in [0u16, (*rl as u16).wrapping_sub(1), (*rl as u16).wrapping_add(1), (remaining as u16).wrapping_add(1), 0xffff].iter().enumerate() {
                    if *nl as usize == *rl || !run_fault(2, i, j as u32) {
                        continue;
                    }
                    ctx.fired("length_prefix_corruption");
                    ctx.evals += 1;
                    let mut p = payload.clone();
                    put16(&mut p, *lp, *nl);
                    let overrun = *nl as usize > remaining;
                    check_prefix(p, c.vals.len() as u8, i, if overrun { Some(i) } else { None }, &format!("length prefix of argument {} set to {}", i, nl))?;
                }
            }
        }
        // noar corruption: the argument list itself is intact
        ctx.cfg("noar_corruption");
        for (j, n) in [0u8, (c.vals.len() as u8).wrapping_sub(1), (c.vals.len() as u8).wrapping_add(1), 255].iter().enumerate() {
            if !run_fault(3, 0, j as u32) {
                continue;
            }
            ctx.fired("noar_corruption");
            ctx.evals += 1;
            check_prefix(payload.clone(), *n, std::cmp::min(*n as usize, c.vals.len()), None, &format!("noar set to {}", n))?;
        }
        ctx.nontrivial = !c.vals.is_empty();
        Ok(())
    }
    fn shrink(c: &Case) -> Vec<Case> {
        let mut out = vec![];
        for v in shrink_vec(&c.vals) {
            out.push(Case { vals: v, only_fault: None, ..c.clone() });
        }
        for (i, v) in c.vals.iter().enumerate() {
            let smaller = match v {
                Val::Str(s) if s.chars().count() > 1 => Some(Val::Str(s.chars().take(s.chars().count() / 2).collect())),
                Val::Ascii(a) if a.len() > 1 => Some(Val::Ascii(a[..a.len() / 2].to_vec())),
                Val::Utf8Bytes(a) if a.len() > 1 => Some(Val::Utf8Bytes(a[..a.len() / 2].to_vec())),
                Val::Raw(a) if a.len() > 1 => Some(Val::Raw(a[..a.len() / 2].to_vec())),
                _ => None,
            };
            if let Some(s) = smaller {
                let mut vs = c.vals.clone();
                vs[i] = s;
                out.push(Case { vals: vs, only_fault: None, ..c.clone() });
            }
        }
        out
    }
    fn finding_key(_c: &Case, v: &Violation) -> Option<String> {
        if v.class == "decode-count:payload_from_args-empty-raw-without-length" {
            Some("C18-payload_from_args-empty-string-or-raw".into())
        } else {
            None
        }
    }
    fn rule() -> &'static str {
        "one run = one typed value sequence (0-12 values over bool, i/u 8-64, f32/f64 incl. NaN/inf/-0/subnormal, UTF-8 and ASCII-coded strings incl. empty/long/CR LF TAB/embedded and trailing NUL/non-UTF-8, UTF-8-coded strings with invalid sequences (expected text = lossy decoding, then the same canonical form), raw bytes) encoded by one of the library's own encoders (serde serializer = host order; payload_from_args = both byte orders), framed, written and re-read through the real writer/parser, decoded and rendered; then EVERY truncation point of the payload (all up to 4 KiB, every 97th beyond), every type-info word set to 11 values, every length prefix set to 5 values and noar set to 4 values is decoded again; each decoded variant is one evaluation; distinct = hash of (encoder, byte order, types, first value bytes)"
    }
    fn assumptions() -> Vec<&'static str> {
        vec![
            "second-weakest fit: the agreement half is a pure codec; the deciding dimension is the stored-data fault (truncation / single-field corruption) the property itself quantifies",
            "a corruption that yields another well-formed list (e.g. UINT -> SINT of the same width) only has to keep the arguments before it intact and stay inside the payload; structurally invalid words and overrunning lengths must end the list at that argument",
            "float text is Rust's Display (canonical decimal); Windows-1252 per WHATWG for ASCII-coded strings",
        ]
    }
    fn real_components() -> Vec<&'static str> {
        vec!["adlt::serde_verb_payload::Serializer", "adlt::utils::payload_from_args", "adlt::dlt::DltMessageArgIterator", "adlt::dlt::DltMessage::{payload_as_text,to_write}", "adlt::utils::DltMessageIterator"]
    }
    fn stub_components() -> Vec<&'static str> {
        vec!["value generator", "fault injector on the stored payload"]
    }
    fn required_reach() -> Vec<&'static str> {
        vec!["truncation", "type_info_corruption", "length_prefix_corruption", "noar_corruption", "maximal_value", "encoder_rejected_oversized_value"]
    }
}
