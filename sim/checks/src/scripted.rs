//! Reader/writer seams owned by the simulation: every `read`/`write` call transfers a count
//! chosen by the schedule.

use crate::rng::Rng;
use serde::{Deserialize, Serialize};
use std::io::{Read, Seek, SeekFrom, Write};
use std::sync::Arc;

#[derive(Clone, Debug, Serialize, Deserialize)]
pub enum Sched {
    /// as much as fits
    All,
    /// at most n bytes per read
    Fixed(usize),
    /// 1..=max per read, from this seed
    Random { seed: u64, max: usize },
    /// mostly big, sometimes tiny
    Bursty { seed: u64 },
    /// stop exactly j bytes after the end of the next message (j cycles through 0..8)
    Adversarial { j0: usize },
    /// fill until exactly `gap` bytes before the given absolute positions, then continue
    StopAt { stops: Vec<usize> },
    /// return exactly what the previous read left unfilled of its buffer (else random <= max):
    /// lands reads on the consumer's previous buffer end
    EchoLeftover { seed: u64, max: usize },
}

pub struct ScriptedSource {
    pub data: Arc<Vec<u8>>,
    pub pos: usize,
    sched: Sched,
    rng: Rng,
    bounds: Arc<Vec<usize>>,
    jn: usize,
    prev_left: usize,
    pub reads: u64,
    pub short_reads: u64,
    pub zero_reads: u64,
    /// shared mirror of (reads, short_reads, zero_reads) for owners that cannot be unwrapped
    pub counts: Arc<SrcCounts>,
}

#[derive(Default, Debug)]
pub struct SrcCounts {
    pub reads: std::sync::atomic::AtomicU64,
    pub short_reads: std::sync::atomic::AtomicU64,
    pub zero_reads: std::sync::atomic::AtomicU64,
}
impl SrcCounts {
    pub fn get(&self) -> (u64, u64, u64) {
        use std::sync::atomic::Ordering::Relaxed;
        (self.reads.load(Relaxed), self.short_reads.load(Relaxed), self.zero_reads.load(Relaxed))
    }
}

impl ScriptedSource {
    pub fn new(data: Arc<Vec<u8>>, sched: Sched, bounds: Arc<Vec<usize>>) -> ScriptedSource {
        let seed = match &sched {
            Sched::Random { seed, .. } | Sched::Bursty { seed } | Sched::EchoLeftover { seed, .. } => *seed,
            _ => 0,
        };
        let jn = match &sched {
            Sched::Adversarial { j0 } => *j0,
            _ => 0,
        };
        ScriptedSource {
            data,
            pos: 0,
            sched,
            rng: Rng::new(seed),
            bounds,
            jn,
            prev_left: 0,
            reads: 0,
            short_reads: 0,
            zero_reads: 0,
            counts: Arc::new(SrcCounts::default()),
        }
    }
    pub fn from_vec(data: Vec<u8>, sched: Sched) -> ScriptedSource {
        ScriptedSource::new(Arc::new(data), sched, Arc::new(vec![]))
    }
}

impl Read for ScriptedSource {
    fn read(&mut self, buf: &mut [u8]) -> std::io::Result<usize> {
        self.reads += 1;
        self.counts.reads.fetch_add(1, std::sync::atomic::Ordering::Relaxed);
        let avail = self.data.len().saturating_sub(self.pos);
        let want = std::cmp::min(buf.len(), avail);
        if want == 0 {
            self.zero_reads += 1;
            self.counts.zero_reads.fetch_add(1, std::sync::atomic::Ordering::Relaxed);
            return Ok(0);
        }
        let n = match &self.sched {
            Sched::All => want,
            Sched::Fixed(k) => std::cmp::min(want, std::cmp::max(1, *k)),
            Sched::Random { max, .. } => std::cmp::min(want, 1 + self.rng.usize(std::cmp::max(1, *max))),
            Sched::Bursty { .. } => {
                if self.rng.chance(1, 4) {
                    std::cmp::min(want, 1 + self.rng.usize(7))
                } else {
                    std::cmp::min(want, 1 + self.rng.usize(200_000))
                }
            }
            Sched::Adversarial { .. } => {
                // next message end strictly after pos
                let nb = match self.bounds.binary_search(&(self.pos + 1)) {
                    Ok(i) => self.bounds.get(i),
                    Err(i) => self.bounds.get(i),
                };
                let j = self.jn % 8;
                self.jn += 1;
                match nb {
                    Some(b) => {
                        let target = b + j;
                        std::cmp::min(want, std::cmp::max(1, target.saturating_sub(self.pos)))
                    }
                    None => want,
                }
            }
            Sched::EchoLeftover { max, .. } => {
                if self.prev_left >= 1 && self.prev_left <= want && self.rng.chance(3, 4) {
                    self.prev_left
                } else {
                    std::cmp::min(want, 1 + self.rng.usize(std::cmp::max(1, *max)))
                }
            }
            Sched::StopAt { stops } => {
                let nb = stops.iter().find(|s| **s > self.pos);
                match nb {
                    Some(b) => std::cmp::min(want, b - self.pos),
                    None => want,
                }
            }
        };
        self.prev_left = buf.len() - n;
        if n < want {
            self.short_reads += 1;
            self.counts.short_reads.fetch_add(1, std::sync::atomic::Ordering::Relaxed);
        }
        buf[..n].copy_from_slice(&self.data[self.pos..self.pos + n]);
        self.pos += n;
        Ok(n)
    }
}

impl Seek for ScriptedSource {
    fn seek(&mut self, p: SeekFrom) -> std::io::Result<u64> {
        let np: i128 = match p {
            SeekFrom::Start(n) => n as i128,
            SeekFrom::Current(d) => self.pos as i128 + d as i128,
            SeekFrom::End(d) => self.data.len() as i128 + d as i128,
        };
        if np < 0 {
            return Err(std::io::Error::new(
                std::io::ErrorKind::InvalidInput,
                "seek before start",
            ));
        }
        self.pos = np as usize;
        Ok(np as u64)
    }
}

#[derive(Clone, Debug, Serialize, Deserialize)]
pub struct SinkSched {
    pub seed: u64,
    /// max bytes accepted per write (0 = unlimited)
    pub max: usize,
    /// one in n writes is answered with ErrorKind::Interrupted before any byte (0 = never)
    pub interrupt_1_in: u64,
}

pub struct ScriptedSink {
    pub data: Vec<u8>,
    sched: SinkSched,
    rng: Rng,
    pub writes: u64,
    pub short_writes: u64,
    pub interrupts: u64,
}
impl ScriptedSink {
    pub fn new(s: SinkSched) -> ScriptedSink {
        let rng = Rng::new(s.seed);
        ScriptedSink {
            data: vec![],
            sched: s,
            rng,
            writes: 0,
            short_writes: 0,
            interrupts: 0,
        }
    }
}
impl Write for ScriptedSink {
    fn write(&mut self, b: &[u8]) -> std::io::Result<usize> {
        self.writes += 1;
        if b.is_empty() {
            return Ok(0);
        }
        if self.sched.interrupt_1_in > 0 && self.rng.below(self.sched.interrupt_1_in) == 0 {
            self.interrupts += 1;
            return Err(std::io::Error::new(
                std::io::ErrorKind::Interrupted,
                "sim EINTR",
            ));
        }
        let n = if self.sched.max == 0 {
            b.len()
        } else {
            std::cmp::min(b.len(), 1 + self.rng.usize(self.sched.max))
        };
        if n < b.len() {
            self.short_writes += 1;
        }
        self.data.extend_from_slice(&b[..n]);
        Ok(n)
    }
    fn flush(&mut self) -> std::io::Result<()> {
        Ok(())
    }
}

pub fn gen_sched(rng: &mut Rng) -> Sched {
    match rng.weighted(&[10, 10, 15, 25, 15, 25, 12]) {
        0 => Sched::All,
        1 => Sched::Fixed(1),
        2 => Sched::Fixed(*rng.pick(&[2usize, 3, 7, 16, 100, 4095, 4096, 4097, 65536])),
        3 => Sched::Random {
            seed: rng.next_u64(),
            max: *rng.pick(&[2usize, 8, 64, 1000, 5000, 70000]),
        },
        4 => Sched::Bursty {
            seed: rng.next_u64(),
        },
        5 => Sched::Adversarial { j0: rng.usize(8) },
        _ => Sched::EchoLeftover { seed: rng.next_u64(), max: *rng.pick(&[100usize, 5000, 70000]) },
    }
}
