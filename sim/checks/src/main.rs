mod c01;
mod c03;
mod c02;
mod c04;
mod c09;
mod c10;
mod c12;
mod c14;
mod c15;
mod c16;
mod remotesim;
mod c17;
mod c18;
mod c19;
mod c20;
mod c20x;
mod fw;
mod gen_dlt;
mod lc;
mod pipechecks;
mod pipes;
mod plug;
mod sh;
mod world;
mod rng;
mod scripted;

use fw::{Check, DriveOpts, Tier, WorkerArgs};

#[global_allocator]
static GLOBAL: c03::AcctAlloc = c03::AcctAlloc;
use std::path::PathBuf;

macro_rules! registry {
    ($mac:ident, $id:expr) => {
        match $id {
            "C01" => $mac!(c01::C01),
            "C02" => $mac!(c02::C02),
            "C03" => $mac!(c03::C03),
            "C04" => $mac!(c04::C04),
            "C05" => $mac!(lc::C05),
            "C06" => $mac!(pipechecks::C06),
            "C07" => $mac!(lc::C07),
            "C08" => $mac!(lc::C08),
            "C09" => $mac!(c09::C09),
            "C10" => $mac!(c10::C10),
            "C12" => $mac!(c12::C12),
            "C13" => $mac!(pipechecks::C13),
            "C14" => $mac!(c14::C14),
            "C15" => $mac!(c15::C15),
            "C16" => $mac!(c16::C16),
            "C17" => $mac!(c17::C17),
            "C18" => $mac!(c18::C18),
            "C19" => $mac!(c19::C19),
            "C20" => $mac!(c20::C20),
            other => {
                eprintln!("HARNESS-ERROR unknown check id {}", other);
                std::process::exit(2);
            }
        }
    };
}

pub const ALL_IDS: &[&str] = &["C01", "C02", "C03", "C04", "C05", "C06", "C07", "C08", "C09", "C10", "C12", "C13", "C14", "C15", "C16", "C17", "C18", "C19", "C20"];

fn arg_val(args: &[String], name: &str) -> Option<String> {
    args.iter()
        .position(|a| a == name)
        .and_then(|i| args.get(i + 1).cloned())
}

fn env_u64(name: &str, default: u64) -> u64 {
    std::env::var(name)
        .ok()
        .and_then(|s| s.parse().ok())
        .unwrap_or(default)
}

fn drive_id(id: &str, o: DriveOpts) -> i32 {
    macro_rules! m {
        ($t:ty) => {
            fw::drive::<$t>(o)
        };
    }
    registry!(m, id)
}

fn main() {
    std::env::set_var("TZ", "UTC");
    let args: Vec<String> = std::env::args().collect();
    if args.len() < 2 {
        eprintln!("usage: checks <run|worker|replay|replay-inner|shrink|digest|list> ...");
        std::process::exit(2);
    }
    let mode = args[1].as_str();
    match mode {
        "list" => {
            for i in ALL_IDS {
                println!("{}", i);
            }
        }
        "run" => {
            let id = args[2].as_str();
            let tier = Tier::parse(
                &arg_val(&args, "--tier")
                    .or_else(|| std::env::var("VERIF_TIER").ok())
                    .unwrap_or_else(|| "quick".into()),
            );
            let seed = arg_val(&args, "--seed")
                .and_then(|s| s.parse().ok())
                .unwrap_or_else(|| env_u64("VERIF_SEED", 1));
            let jobs = arg_val(&args, "--jobs")
                .and_then(|s| s.parse().ok())
                .unwrap_or_else(|| env_u64("VERIF_JOBS", 16));
            let runs = arg_val(&args, "--runs")
                .and_then(|s| s.parse().ok())
                .or_else(|| std::env::var("VERIF_RUNS").ok().and_then(|s| s.parse().ok()));
            let digest_out = arg_val(&args, "--digest-out").map(PathBuf::from);
            let o = DriveOpts {
                tier,
                seed,
                jobs,
                runs_override: runs,
                write_evidence: digest_out.is_none()
                    && !args.iter().any(|a| a == "--no-evidence")
                    && std::env::var("VERIF_NO_EVIDENCE").is_err(),
                digest_out,
            };
            std::process::exit(drive_id(id, o));
        }
        "worker" => {
            let id = args[2].as_str();
            let a = WorkerArgs {
                tier: Tier::parse(&arg_val(&args, "--tier").unwrap()),
                seed: arg_val(&args, "--seed").unwrap().parse().unwrap(),
                start: arg_val(&args, "--start").unwrap().parse().unwrap(),
                stride: arg_val(&args, "--stride").unwrap().parse().unwrap(),
                total: arg_val(&args, "--total").unwrap().parse().unwrap(),
                out: PathBuf::from(arg_val(&args, "--out").unwrap()),
                digest: args.iter().any(|a| a == "--digest"),
                wall_cap_s: arg_val(&args, "--wall-cap")
                    .and_then(|s| s.parse().ok())
                    .unwrap_or(0),
                restarts_left: arg_val(&args, "--restarts-left")
                    .and_then(|s| s.parse().ok())
                    .unwrap_or(0),
            };
            macro_rules! m {
                ($t:ty) => {
                    fw::worker::<$t>(a)
                };
            }
            registry!(m, id)
        }
        "replay" => {
            let p = PathBuf::from(&args[2]);
            std::process::exit(fw::replay(&p));
        }
        "replay-inner" => {
            let id = args[2].as_str();
            let p = PathBuf::from(&args[3]);
            macro_rules! m {
                ($t:ty) => {
                    fw::replay_inner::<$t>(&p)
                };
            }
            registry!(m, id)
        }
        "shrink" => {
            let p = PathBuf::from(&args[2]);
            let rf = fw::load_replay(&p);
            let id = rf.property.clone();
            macro_rules! m {
                ($t:ty) => {
                    fw::shrink::<$t>(&p)
                };
            }
            registry!(m, id.as_str())
        }
        "dbg-zip" => {
            // trace the reads/seeks the zip reader issues through adlt's reader stack
            let bytes = std::fs::read(&args[2]).unwrap();
            println!("cursor: {:?}", zip::ZipArchive::new(std::io::Cursor::new(bytes.clone())).map(|z| z.len()));
            let chain = adlt::utils::seekablechain::SeekableChain::new(vec![std::io::Cursor::new(bytes.clone())]);
            println!("chain: {:?}", zip::ZipArchive::new(chain).map(|z| z.len()));
            let chain = adlt::utils::seekablechain::SeekableChain::new(vec![std::io::Cursor::new(bytes)]);
            println!("list_archive_contents: {:?}", adlt::utils::unzip::list_archive_contents(chain));
        }
        "gen" => {
            // print the case of (id, seed, idx) as JSON
            let id = args[2].as_str();
            let seed: u64 = arg_val(&args, "--seed").and_then(|s| s.parse().ok()).unwrap_or(1);
            let idx: u64 = arg_val(&args, "--idx").and_then(|s| s.parse().ok()).unwrap_or(0);
            let tier = Tier::parse(&arg_val(&args, "--tier").unwrap_or_else(|| "quick".into()));
            macro_rules! m {
                ($t:ty) => {{
                    let c = fw::gen_case::<$t>(seed, tier, idx);
                    println!("{}", serde_json::to_string_pretty(&<$t as Check>::sample(&c)).unwrap());
                }};
            }
            registry!(m, id)
        }
        _ => {
            eprintln!("HARNESS-ERROR unknown mode {}", mode);
            std::process::exit(2);
        }
    }
}
