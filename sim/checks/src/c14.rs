//! C14 — convert selects exactly what its options say, and writes what it selected.
//! The real `convert::convert()` (mounted from /repo/src/bin/adlt/convert.rs) runs inside a shuttle
//! execution with small channel bounds on files written by the world simulator.

use crate::fw::{shrink_vec, Check, Ctx, Tier, Violation};
use crate::rng::Rng;
use crate::sh::{self, SchedCfg, SchedKind};
use crate::viol;
use crate::world::*;
use adlt::dlt::DltMessage;
use adlt::utils::DltMessageIterator;
use serde::{Deserialize, Serialize};
use std::collections::{BTreeMap, BTreeSet};
use std::path::PathBuf;
use std::sync::{Arc, Mutex};

#[allow(dead_code, unused_imports, clippy::all)]
#[path = "/repo/src/bin/adlt/convert.rs"]
pub mod convert;

#[derive(Clone, Debug, Serialize, Deserialize)]
pub enum IdPat {
    Lit(String),
    Regex(String),
}

#[derive(Clone, Debug, Serialize, Deserialize)]
pub struct AFilter {
    pub neg: bool,
    /// DLF only: written as a marker (type 2) filter, which must not influence the selection
    #[serde(default)]
    pub marker: bool,
    pub enabled: bool,
    pub ecu: Option<IdPat>,
    pub apid: Option<IdPat>,
    pub ctid: Option<IdPat>,
}

#[derive(Clone, Debug, Serialize, Deserialize)]
pub struct Case {
    /// messages per input file (already in file order)
    pub files: Vec<Vec<TMsg>>,
    /// marker-free garbage (length) inserted after message k of file f: (f, k, len)
    pub garbage: Vec<(usize, usize, usize)>,
    pub index_first: Option<u32>,
    pub index_last: Option<u32>,
    /// ranks (order of creation in the run) of the lifecycles to select
    pub lcs: Vec<u32>,
    /// --eac expressions (positive filters)
    pub eac: Vec<AFilter>,
    /// filter file: 0 none, 1 dlf, 2 dlt-convert format
    pub ffile_kind: u8,
    pub ffile: Vec<AFilter>,
    pub sort: bool,
    /// 0 none, 1 -a, 2 -x, 3 -s
    pub style: u8,
    pub output_file: bool,
    /// permutation of the file arguments for the second run
    pub perm: Vec<usize>,
    /// a file argument that is named once more at the end of the argument list in a further run
    #[serde(default)]
    pub repeat_arg: Option<usize>,
    pub sched: SchedCfg,
}

#[derive(Clone)]
struct SharedWriter(Arc<Mutex<Vec<u8>>>);
impl std::io::Write for SharedWriter {
    fn write(&mut self, b: &[u8]) -> std::io::Result<usize> {
        self.0.lock().unwrap().extend_from_slice(b);
        Ok(b.len())
    }
    fn flush(&mut self) -> std::io::Result<()> {
        Ok(())
    }
}

fn root_dir() -> PathBuf {
    let base = std::env::var("VERIF_TMP").unwrap_or_else(|_| "/verif/sim/target/tmp".to_string());
    PathBuf::from(base).join(format!("c14-{}", std::process::id()))
}

fn id4(s: &str) -> [u8; 4] {
    let mut x = [0u8; 4];
    for (i, b) in s.bytes().take(4).enumerate() {
        x[i] = b;
    }
    x
}

impl IdPat {
    fn matches(&self, id: &[u8; 4]) -> bool {
        match self {
            IdPat::Lit(s) => id4(s) == *id,
            IdPat::Regex(r) => regex::bytes::Regex::new(r).map(|re| re.is_match(id)).unwrap_or(false),
        }
    }
    fn text(&self) -> &str {
        match self {
            IdPat::Lit(s) | IdPat::Regex(s) => s,
        }
    }
}

impl AFilter {
    /// abstract reference predicate (deliberately not adlt's Filter)
    fn matches(&self, m: &DltMessage) -> bool {
        if let Some(p) = &self.ecu {
            if !p.matches(m.ecu.as_buf()) {
                return false;
            }
        }
        if let Some(p) = &self.apid {
            match m.apid() {
                Some(a) if p.matches(a.as_buf()) => {}
                _ => return false,
            }
        }
        if let Some(p) = &self.ctid {
            match m.ctid() {
                Some(a) if p.matches(a.as_buf()) => {}
                _ => return false,
            }
        }
        true
    }
    fn eac_expr(&self) -> String {
        format!(
            "{}:{}:{}",
            self.ecu.as_ref().map(|p| p.text()).unwrap_or(""),
            self.apid.as_ref().map(|p| p.text()).unwrap_or(""),
            self.ctid.as_ref().map(|p| p.text()).unwrap_or("")
        )
    }
}

fn gen_pat(rng: &mut Rng, lits: &[&str], regs: &[&str]) -> IdPat {
    if !regs.is_empty() && rng.chance(1, 4) {
        IdPat::Regex(rng.pick(regs).to_string())
    } else {
        IdPat::Lit(rng.pick(lits).to_string())
    }
}

fn gen_afilter(rng: &mut Rng, allow_neg: bool, allow_regex: bool) -> AFilter {
    let ecus = ["ECU0", "ECU1", "E2", "ECU3"];
    let ecur = ["^ECU[01]", "ECU.", "E2|ECU3"]; // regex-ness of --eac parts is decided by regex characters
    let apids = ["APP1", "APP2", "SYS", "DA1", "LONG", "A"];
    let apidr = ["^APP", "APP1|SYS", "A.*"];
    let ctids = ["CTX1", "CTX2", "JOUR", "DC1", "C", "MAIN"];
    let ctidr = ["CTX.", "^(MAIN|JOUR)", "C.*"];
    let nor: [&str; 0] = [];
    let mut f = AFilter { neg: allow_neg && rng.chance(1, 3), marker: false, enabled: !allow_neg || rng.chance(5, 6), ecu: None, apid: None, ctid: None };
    match rng.below(6) {
        0 => f.ecu = Some(gen_pat(rng, &ecus, if allow_regex { &ecur } else { &nor[..] })),
        1 | 2 => f.apid = Some(gen_pat(rng, &apids, if allow_regex { &apidr } else { &nor[..] })),
        3 => f.ctid = Some(gen_pat(rng, &ctids, if allow_regex { &ctidr } else { &nor[..] })),
        4 => {
            f.apid = Some(gen_pat(rng, &apids, if allow_regex { &apidr } else { &nor[..] }));
            f.ctid = Some(gen_pat(rng, &ctids, if allow_regex { &ctidr } else { &nor[..] }));
        }
        _ => {
            f.ecu = Some(gen_pat(rng, &ecus, if allow_regex { &ecur } else { &nor[..] }));
            f.apid = Some(gen_pat(rng, &apids, if allow_regex { &apidr } else { &nor[..] }));
        }
    }
    // Lit with no regex alternatives requested
    for p in [&mut f.ecu, &mut f.apid, &mut f.ctid].into_iter().flatten() {
        if !allow_regex {
            if let IdPat::Regex(_) = p {
                *p = IdPat::Lit("APP1".into());
            }
        }
    }
    f
}

fn write_dlf(fs: &[AFilter]) -> String {
    let mut s = String::from("<?xml version=\"1.0\" encoding=\"UTF-8\"?>\n<dltfilter>\n");
    for f in fs {
        s.push_str("<filter>");
        s.push_str(&format!("<type>{}</type><name>f</name><enablefilter>{}</enablefilter>", if f.marker { 2 } else if f.neg { 1 } else { 0 }, if f.enabled { 1 } else { 0 }));
        if let Some(p) = &f.ecu {
            s.push_str(&format!("<enableecuid>1</enableecuid><ecuid>{}</ecuid>", p.text()));
        } else {
            s.push_str("<enableecuid>0</enableecuid><ecuid>XXXX</ecuid>");
        }
        if let Some(p) = &f.apid {
            s.push_str(&format!("<enableapplicationid>1</enableapplicationid><applicationid>{}</applicationid><enableregexp_Appid>{}</enableregexp_Appid>", p.text(), if matches!(p, IdPat::Regex(_)) { 1 } else { 0 }));
        }
        if let Some(p) = &f.ctid {
            s.push_str(&format!("<enablecontextid>1</enablecontextid><contextid>{}</contextid><enableregexp_Context>{}</enableregexp_Context>", p.text(), if matches!(p, IdPat::Regex(_)) { 1 } else { 0 }));
        }
        s.push_str("</filter>\n");
    }
    s.push_str("</dltfilter>\n");
    s
}

fn write_convert_format(fs: &[AFilter]) -> String {
    let pad = |p: &Option<IdPat>| -> String {
        let t = p.as_ref().map(|p| p.text().to_string()).unwrap_or_default();
        format!("{:-<4}", t)
    };
    fs.iter().map(|f| format!("{} {} ", pad(&f.apid), pad(&f.ctid))).collect::<Vec<_>>().join("")
}

struct RunOut {
    screen: String,
    ok: bool,
    err: String,
}

fn run_convert(args: Vec<String>, sched: &SchedCfg, ctx: &mut Ctx) -> Result<(RunOut, u32), Violation> {
    let base = crate::lc::align_lc_ids_get();
    let buf = Arc::new(Mutex::new(Vec::<u8>::new()));
    let res = sh::slot((true, String::new()));
    let res2 = res.clone();
    let buf2 = buf.clone();
    let args = Arc::new(args);
    sh::run(sched, ctx, move || {
        let log = slog::Logger::root(slog::Discard, slog::o!());
        let app = convert::add_subcommand(clap::Command::new("adlt"));
        let m = app.try_get_matches_from(args.iter());
        match m {
            Ok(m) => {
                if let Some(("convert", sub_m)) = m.subcommand() {
                    let r = convert::convert(&log, sub_m, SharedWriter(buf2.clone()));
                    if let Err(e) = r {
                        *res2.lock().unwrap() = (false, e.to_string());
                    }
                }
            }
            Err(e) => {
                *res2.lock().unwrap() = (false, format!("clap: {}", e));
            }
        }
    })?;
    let (ok, err) = res.lock().unwrap().clone();
    let screen = String::from_utf8_lossy(&buf.lock().unwrap()).to_string();
    Ok((RunOut { screen, ok, err }, base))
}

fn leading_indices(screen: &str) -> Vec<u32> {
    screen
        .lines()
        .filter_map(|l| l.split(' ').next().and_then(|t| t.parse::<u32>().ok()))
        .collect()
}

fn parse_listing(screen: &str) -> Vec<(u32, String, u32)> {
    let re = regex::Regex::new(r"^LC#\s*(\d+):\s*(\S*)\s.*#\s*(\d+)").unwrap();
    screen
        .lines()
        .filter_map(|l| re.captures(l).map(|c| (c[1].parse().unwrap_or(0), c[2].to_string(), c[3].parse().unwrap_or(0))))
        .collect()
}

fn read_dlt(p: &std::path::Path) -> Vec<DltMessage> {
    let b = std::fs::read(p).unwrap_or_default();
    DltMessageIterator::new(0, &b[..]).collect()
}

fn same_content(a: &DltMessage, b: &DltMessage) -> bool {
    a.ecu == b.ecu && a.reception_time_us == b.reception_time_us && a.timestamp_dms == b.timestamp_dms && a.payload == b.payload && a.extended_header == b.extended_header && a.mcnt() == b.mcnt()
}

pub struct C14;
impl Check for C14 {
    type Case = Case;
    const ID: &'static str = "C14";
    fn runs(t: Tier) -> u64 {
        t.pick(8_000, 400_000)
    }
    fn generate(rng: &mut Rng, _tier: Tier, _idx: u64) -> Case {
        let mut k = rng.sub("knobs");
        let max_msgs = k.urange(5, 120);
        let mut knobs = WorldKnobs::gen(&mut k, max_msgs);
        knobs.f_clock_jump = false; // files of one recorder: monotone wall clock
        knobs.f_reorder = false;
        let (mut trace, _) = gen_world(&mut rng.sub("world"), &knobs);
        trace.truncate(160);
        if trace.is_empty() {
            trace.push(TMsg { ecu: 0, boot: 0, rx_us: WALL_BASE_US, ts: 1, has_ts: true, kind: K_LOG, app: 0, mcnt: 0, n: 1, flags: 0 });
        }
        // globally distinct reception times (ties make the parallel merge order argument dependent)
        let mut seen = BTreeSet::new();
        for m in trace.iter_mut() {
            while !seen.insert(m.rx_us) {
                m.rx_us += 1;
            }
        }
        trace.sort_by_key(|m| m.rx_us);
        let nfiles = k.weighted(&[50, 35, 15]) + 1;
        let files: Vec<Vec<TMsg>> = if nfiles == 1 || trace.len() < nfiles * 2 {
            vec![trace]
        } else if k.chance(1, 4) && trace.iter().any(|m| m.ecu != trace[0].ecu) {
            // nested ECU sets that overlap in time: one file with all ECUs and every other message of the
            // first ECU, a second file with the remaining messages of that ECU
            let e0 = trace[0].ecu;
            let mut a = vec![];
            let mut b = vec![];
            let mut n0 = 0;
            for m in trace {
                if m.ecu == e0 {
                    n0 += 1;
                    if n0 % 2 == 0 {
                        b.push(m);
                        continue;
                    }
                }
                a.push(m);
            }
            if k.bool() { vec![a, b] } else { vec![b, a] }
        } else if k.bool() {
            // same recorder stream cut into consecutive chunks
            let mut cuts: Vec<usize> = (0..nfiles - 1).map(|_| k.urange(1, trace.len() - 1)).collect();
            cuts.sort();
            cuts.dedup();
            let mut out = vec![];
            let mut prev = 0;
            for c in cuts {
                out.push(trace[prev..c].to_vec());
                prev = c;
            }
            out.push(trace[prev..].to_vec());
            out
        } else {
            // one file per ECU (recorded in parallel)
            let mut per: BTreeMap<u8, Vec<TMsg>> = BTreeMap::new();
            for m in trace {
                per.entry(m.ecu).or_default().push(m);
            }
            per.into_values().collect()
        };
        let mut files: Vec<Vec<TMsg>> = files.into_iter().filter(|f| !f.is_empty()).collect();
        // two recordings that start at the very same instant (the permutation part is not judged then)
        if files.len() > 1 && k.chance(1, 5) {
            let t0 = files.iter().map(|f| f[0].rx_us).min().unwrap();
            let j = k.usize(files.len());
            files[j][0].rx_us = t0;
        }
        // a file may start with a message of (nearly) maximum size
        if k.chance(1, 12) {
            let j = k.usize(files.len());
            if files[j][0].kind == K_LOG {
                files[j][0].flags |= F_HUGE;
            }
        }
        let total: usize = files.iter().map(|f| f.len()).sum();
        let mut garbage = vec![];
        for _ in 0..k.usize(4) {
            let f = k.usize(files.len());
            garbage.push((f, k.usize(files[f].len()), k.urange(1, 40)));
        }
        let index_first = if k.chance(1, 3) { Some(k.usize(total + 3) as u32) } else { None };
        let index_last = if k.chance(1, 3) { Some(k.usize(total + 3) as u32) } else { None };
        let lcs = if k.chance(1, 3) { (0..k.urange(1, 3)).map(|_| k.below(6) as u32).collect() } else { vec![] };
        let mut fr = rng.sub("filters");
        let eac = if k.chance(1, 3) { (0..k.urange(1, 3)).map(|_| gen_afilter(&mut fr, false, true)).collect() } else { vec![] };
        let ffile_kind = k.weighted(&[60, 25, 15]) as u8;
        let ffile = match ffile_kind {
            1 => (0..fr.urange(1, 4)).map(|_| { let mut f = gen_afilter(&mut fr, true, true); if let Some(IdPat::Regex(_)) = f.ecu { f.ecu = Some(IdPat::Lit("ECU0".into())); } f.marker = fr.chance(1, 5); f }).collect(),
            2 => (0..fr.urange(1, 3)).map(|_| {
                let mut f = gen_afilter(&mut fr, false, false);
                f.ecu = None;
                if f.apid.is_none() { f.apid = Some(IdPat::Lit("APP1".into())); }
                if f.ctid.is_none() { f.ctid = Some(IdPat::Lit("CTX1".into())); }
                f
            }).collect(),
            _ => vec![],
        };
        let mut perm: Vec<usize> = (0..files.len()).collect();
        k.shuffle(&mut perm);
        Case {
            files,
            garbage,
            index_first,
            index_last,
            lcs,
            eac,
            ffile_kind,
            ffile,
            sort: k.chance(1, 4),
            style: k.weighted(&[15, 55, 15, 15]) as u8,
            output_file: k.chance(2, 3),
            perm,
            repeat_arg: { let mut r = rng.sub("repeat"); if r.chance(1, 4) { Some(r.usize(8)) } else { None } },
            sched: SchedCfg::gen(&mut rng.sub("sched")),
        }
    }
    fn run(c: &Case, ctx: &mut Ctx) -> Result<(), Violation> {
        if c.files.is_empty() || c.files.iter().any(|f| f.is_empty()) || c.perm.len() != c.files.len() {
            return Ok(());
        }
        // the statement's precondition for the permutation part + our tie exclusion
        let mut firsts = BTreeSet::new();
        let mut all_rx = BTreeSet::new();
        let mut ties = false;
        for f in &c.files {
            firsts.insert(f[0].rx_us);
            for m in f {
                ties |= !all_rx.insert(m.rx_us);
            }
        }
        let root = root_dir();
        let _ = std::fs::remove_dir_all(&root);
        std::fs::create_dir_all(&root).unwrap();
        if firsts.len() != c.files.len() {
            ctx.probe("files_with_equal_start_time");
        }
        if c.files.iter().any(|f| f[0].flags & F_HUGE != 0 && f[0].kind == K_LOG) {
            ctx.probe("file_starting_with_maximum_size_message");
        }
        let r = run_inner(c, ctx, &root, firsts.len() == c.files.len() && !ties);
        if std::env::var("VERIF_KEEP").is_err() {
            let _ = std::fs::remove_dir_all(&root);
        }
        r
    }
    fn shrink(c: &Case) -> Vec<Case> {
        let mut out = vec![];
        if c.files.len() > 1 {
            for i in 0..c.files.len() {
                let mut f = c.files.clone();
                f.remove(i);
                let perm = (0..f.len()).collect();
                out.push(Case { files: f, perm, garbage: vec![], ..c.clone() });
            }
        }
        for (i, f) in c.files.iter().enumerate() {
            for s in shrink_vec(f) {
                if !s.is_empty() {
                    let mut fs = c.files.clone();
                    fs[i] = s;
                    out.push(Case { files: fs, garbage: vec![], ..c.clone() });
                }
            }
        }
        if !c.garbage.is_empty() { out.push(Case { garbage: vec![], ..c.clone() }); }
        if c.index_first.is_some() { out.push(Case { index_first: None, ..c.clone() }); }
        if c.index_last.is_some() { out.push(Case { index_last: None, ..c.clone() }); }
        if !c.lcs.is_empty() { out.push(Case { lcs: vec![], ..c.clone() }); }
        if !c.eac.is_empty() { out.push(Case { eac: vec![], ..c.clone() }); for e in shrink_vec(&c.eac) { if !e.is_empty() { out.push(Case { eac: e, ..c.clone() }); } } }
        if c.ffile_kind != 0 { out.push(Case { ffile_kind: 0, ffile: vec![], ..c.clone() }); for e in shrink_vec(&c.ffile) { if !e.is_empty() { out.push(Case { ffile: e, ..c.clone() }); } } }
        if c.sort { out.push(Case { sort: false, ..c.clone() }); }
        if c.output_file { out.push(Case { output_file: false, ..c.clone() }); }
        if c.style != 1 { out.push(Case { style: 1, ..c.clone() }); }
        if !matches!(c.sched.kind, SchedKind::RoundRobin) {
            let mut s = c.sched.clone();
            s.kind = SchedKind::RoundRobin;
            s.caps = vec![];
            out.push(Case { sched: s, ..c.clone() });
        }
        out
    }
    fn rule() -> &'static str {
        "one run = 1-3 input files written from one simulated world (<= 160 messages; consecutive chunks of one recording or one file per ECU; marker-free garbage between messages) and one option combination over -b/-e, --lcs, --eac (1-3 literal/regex expressions), -f in dlt-viewer DLF and dlt-convert format (positive/negative/marker/disabled), --sort, -a/-x/-s/none, -o; the real convert() is executed 3-4 times inside shuttle executions with small channel bounds: baseline (-a -o, no selection), baseline listing, the selection run, the selection run with permuted file arguments, and (a quarter of the runs) the selection run with one file argument named once more at the end; expected selection = window AND lifecycle set AND filter rule with an abstract reference predicate written for the oracle; every selected message exactly once on screen and in the re-read -o file; non-trivial = some but not all messages selected; distinct = hash of the case"
    }
    fn assumptions() -> Vec<&'static str> {
        vec![
            "lifecycle membership per index comes from an independent library pass over the baseline export; its lifecycle ranks are aligned with the run's ids through the aligned global id counter and cross-checked against the run's own listing (ids, ECU, counts)",
            "with --sort only the multiset is compared (C10 owns the order)",
            "the permutation part is only judged when all reception times are distinct (first messages distinct is the statement's precondition; ties deeper in parallel recordings make the merge order depend on heap insertion order and are excluded)",
        ]
    }
    fn real_components() -> Vec<&'static str> {
        vec!["adlt convert::convert() incl. its thread/channel wiring, option parsing (clap), filter file parsing, file grouping/merging, output thread", "all stage functions behind it"]
    }
    fn stub_components() -> Vec<&'static str> {
        vec!["thread scheduling/channels (shuttle + seam, bounds overridden)", "world model writing the input files", "real file system in a per-run directory"]
    }
    fn required_reach() -> Vec<&'static str> {
        vec!["try_send_full", "opt_index_window", "opt_lcs", "opt_eac", "opt_filter_file_dlf", "opt_filter_file_convert", "opt_sort", "opt_output_file", "multi_file", "files_with_equal_start_time", "file_starting_with_maximum_size_message", "filter_file_with_marker_filter", "output_file_preexisting_and_longer", "permutation_compared", "repeated_file_argument"]
    }
}

fn run_inner(c: &Case, ctx: &mut Ctx, root: &std::path::Path, perm_ok: bool) -> Result<(), Violation> {
    ctx.sig.u64(c.files.len() as u64);
    for f in &c.files {
        ctx.sig.u64(f.len() as u64);
        for m in f.iter().take(16) {
            ctx.sig.u64(m.rx_us ^ m.n as u64);
        }
    }
    ctx.sig.u64(c.index_first.unwrap_or(u32::MAX) as u64 ^ ((c.index_last.unwrap_or(u32::MAX) as u64) << 32));
    ctx.sig.u64(c.style as u64 ^ ((c.sort as u64) << 8) ^ ((c.ffile_kind as u64) << 16) ^ ((c.eac.len() as u64) << 24) ^ ((c.lcs.len() as u64) << 32));
    ctx.sig.u64(c.sched.seed);
    // write the input files
    let mut paths = vec![];
    for (fi, f) in c.files.iter().enumerate() {
        let mut b = vec![];
        for (k, m) in f.iter().enumerate() {
            let _ = m.to_dlt(0).to_write(&mut b);
            for (gf, gk, gl) in &c.garbage {
                if *gf == fi && *gk == k {
                    b.extend(std::iter::repeat(b'g').take(*gl));
                    ctx.probe("garbage_between_messages");
                }
            }
        }
        let p = root.join(format!("in{}.dlt", fi));
        std::fs::write(&p, &b).unwrap();
        paths.push(p.to_string_lossy().to_string());
    }
    if c.files.len() > 1 {
        ctx.probe("multi_file");
    }
    let total: usize = c.files.iter().map(|f| f.len()).sum();
    let mk = |extra: Vec<String>, files: &[String]| -> Vec<String> {
        let mut v = vec!["adlt".to_string(), "convert".to_string()];
        v.extend(extra);
        v.extend(files.iter().cloned());
        v
    };
    // ---- baseline B: no selection, ascii + export
    let bout = root.join("baseline.dlt");
    let (b, _) = run_convert(mk(vec!["-a".into(), "-o".into(), bout.to_string_lossy().to_string()], &paths), &c.sched, ctx)?;
    if !b.ok {
        viol!("convert-error", "baseline run failed: {}", b.err);
    }
    let bidx = leading_indices(&b.screen);
    if bidx.len() != total || bidx.iter().enumerate().any(|(i, x)| *x != i as u32) {
        viol!("baseline-indices", "baseline prints {} messages (indices {:?}...), input has {}", bidx.len(), &bidx[..std::cmp::min(5, bidx.len())], total);
    }
    let base_msgs = read_dlt(&bout);
    if base_msgs.len() != total {
        viol!("baseline-export", "baseline export re-reads to {} messages, input has {}", base_msgs.len(), total);
    }
    // every input message present exactly once in the baseline (multiset by content)
    {
        let mut want: Vec<(u64, u32, Vec<u8>)> = c.files.iter().flatten().map(|t| { let d = t.to_dlt(0); (d.reception_time_us, d.timestamp_dms, d.payload) }).collect();
        let mut got: Vec<(u64, u32, Vec<u8>)> = base_msgs.iter().map(|d| (d.reception_time_us, d.timestamp_dms, d.payload.clone())).collect();
        want.sort();
        got.sort();
        if want != got {
            viol!("baseline-content", "baseline export is not the multiset of the input messages");
        }
    }
    // ---- lifecycle membership by an independent library pass (ranks by creation order)
    let lib = crate::lc::run_stage(vec![base_msgs.clone()], ctx)?;
    let lib_base = lib.table.iter().map(|l| l.id).min().unwrap_or(0).saturating_sub(1) / 1024 * 1024;
    let rank_of: Vec<u32> = lib.out.iter().map(|m| m.lifecycle - lib_base).collect();
    // baseline listing (style none) to cross-check ids/ecu/counts of the run itself
    let (l, lbase) = run_convert(mk(vec![], &paths), &c.sched, ctx)?;
    let listing = parse_listing(&l.screen);
    {
        let mut a: Vec<(u32, u32)> = listing.iter().map(|(id, _, n)| (id.wrapping_sub(lbase), *n)).collect();
        let mut bb: Vec<(u32, u32)> = lib.table.iter().map(|x| (x.id - lib_base, x.nr_msgs)).collect();
        a.sort();
        bb.sort();
        if a != bb {
            viol!("listing-vs-library", "lifecycle listing of the run (rank, count) {:?} differs from the library pass {:?}", a, bb);
        }
    }
    // ---- the selection run
    let mut extra: Vec<String> = vec![];
    if let Some(x) = c.index_first { extra.push("-b".into()); extra.push(x.to_string()); ctx.probe("opt_index_window"); }
    if let Some(x) = c.index_last { extra.push("-e".into()); extra.push(x.to_string()); ctx.probe("opt_index_window"); }
    match c.style { 1 => extra.push("-a".into()), 2 => extra.push("-x".into()), 3 => extra.push("-s".into()), _ => {} }
    if c.sort { extra.push("--sort".into()); ctx.probe("opt_sort"); }
    let sel_out = root.join("sel.dlt");
    if c.output_file {
        extra.push("-o".into());
        extra.push(sel_out.to_string_lossy().to_string());
        ctx.probe("opt_output_file");
        if c.sched.seed % 3 == 0 {
            // the output path is reused: it already holds an earlier, longer export
            std::fs::copy(&bout, &sel_out).unwrap();
            ctx.probe("output_file_preexisting_and_longer");
        }
    }
    if !c.eac.is_empty() {
        extra.push(format!("--eac={}", c.eac.iter().map(|f| f.eac_expr()).collect::<Vec<_>>().join(",")));
        ctx.probe("opt_eac");
    }
    if c.ffile_kind != 0 && !c.ffile.is_empty() {
        let fp = root.join("filters.txt");
        std::fs::write(&fp, if c.ffile_kind == 1 { write_dlf(&c.ffile) } else { write_convert_format(&c.ffile) }).unwrap();
        extra.push("-f".into());
        extra.push(fp.to_string_lossy().to_string());
        ctx.probe(if c.ffile_kind == 1 { "opt_filter_file_dlf" } else { "opt_filter_file_convert" });
    }
    // --lcs takes the ids of the upcoming run: aligned counter + rank
    let mk_sel = |base: u32, files: &[String]| -> Vec<String> {
        let mut e = extra.clone();
        if !c.lcs.is_empty() {
            e.push(format!("--lcs={}", c.lcs.iter().map(|r| (base + 1 + r).to_string()).collect::<Vec<_>>().join(",")));
        }
        mk(e, files)
    };
    if !c.lcs.is_empty() {
        ctx.probe("opt_lcs");
    }
    let next_base = crate::lc::peek_next_aligned_base();
    let (s, sbase) = run_convert(mk_sel(next_base, &paths), &c.sched, ctx)?;
    if sbase != next_base {
        return Err(Violation::new("harness-panic:c14-id-prediction", format!("predicted base {} but run used {}", next_base, sbase)));
    }
    if !s.ok {
        viol!("convert-error", "selection run failed: {} (args {:?})", s.err, mk_sel(next_base, &paths));
    }
    // ---- expected selection
    let mut all_filters: Vec<AFilter> = c.eac.clone();
    if c.ffile_kind != 0 {
        all_filters.extend(c.ffile.iter().cloned());
    }
    if all_filters.iter().any(|f| f.marker && f.enabled) {
        ctx.probe("filter_file_with_marker_filter");
    }
    let pos: Vec<&AFilter> = all_filters.iter().filter(|f| f.enabled && !f.neg && !f.marker).collect();
    let neg: Vec<&AFilter> = all_filters.iter().filter(|f| f.enabled && f.neg && !f.marker).collect();
    let lo = c.index_first.unwrap_or(0);
    let hi = c.index_last.unwrap_or(u32::MAX);
    let lcset: BTreeSet<u32> = c.lcs.iter().map(|r| r + 1).collect();
    let expected: Vec<u32> = (0..total as u32)
        .filter(|i| {
            let m = &base_msgs[*i as usize];
            *i >= lo && *i <= hi
                && (lcset.is_empty() || lcset.contains(&rank_of[*i as usize]))
                && (pos.is_empty() || pos.iter().any(|f| f.matches(m)))
                && !neg.iter().any(|f| f.matches(m))
        })
        .collect();
    let check_run = |s: &RunOut, out: &std::path::Path, what: &str| -> Result<(), Violation> {
        if c.style != 0 {
            let mut got = leading_indices(&s.screen);
            let mut exp = expected.clone();
            if c.sort {
                got.sort();
                exp.sort();
            }
            if got != exp {
                let missing: Vec<u32> = exp.iter().filter(|i| !got.contains(i)).copied().take(8).collect();
                let extra: Vec<u32> = got.iter().filter(|i| !exp.contains(i)).copied().take(8).collect();
                viol!("selection-screen", "{}: printed {} messages, expected {} (missing {:?}, unexpected {:?}); options {:?}", what, got.len(), exp.len(), missing, extra, extra_args_summary(c));
            }
        }
        if c.output_file {
            let got = read_dlt(out);
            if got.len() != expected.len() {
                viol!("selection-file-count", "{}: -o file re-reads to {} messages, expected {}; options {:?}", what, got.len(), expected.len(), extra_args_summary(c));
            }
            if !c.sort {
                for (g, i) in got.iter().zip(expected.iter()) {
                    if !same_content(g, &base_msgs[*i as usize]) {
                        viol!("selection-file-content", "{}: -o file message differs from input message {}", what, i);
                    }
                }
            } else {
                let mut a: Vec<(u64, u32)> = got.iter().map(|g| (g.reception_time_us, g.timestamp_dms)).collect();
                let mut b: Vec<(u64, u32)> = expected.iter().map(|i| (base_msgs[*i as usize].reception_time_us, base_msgs[*i as usize].timestamp_dms)).collect();
                a.sort();
                b.sort();
                if a != b {
                    viol!("selection-file-content", "{}: -o file is not the multiset of the selected messages", what);
                }
            }
        }
        Ok(())
    };
    check_run(&s, &sel_out, "selection run")?;
    ctx.event_u64(expected.len() as u64);
    // ---- permuted file arguments
    if c.files.len() > 1 && perm_ok && c.perm.iter().enumerate().any(|(i, p)| i != *p) {
        let permuted: Vec<String> = c.perm.iter().map(|p| paths[*p].clone()).collect();
        let _ = std::fs::remove_file(&sel_out);
        let nb = crate::lc::peek_next_aligned_base();
        let (s2, _) = run_convert(mk_sel(nb, &permuted), &c.sched, ctx)?;
        if !s2.ok {
            viol!("convert-error", "permuted run failed: {}", s2.err);
        }
        check_run(&s2, &sel_out, "run with permuted file arguments")?;
        ctx.probe("permutation_compared");
    }
    // ---- a file argument named twice: convert drops repeated file arguments, so nothing may change
    if let Some(j) = c.repeat_arg {
        let mut twice: Vec<String> = paths.clone();
        twice.push(paths[j % paths.len()].clone());
        let _ = std::fs::remove_file(&sel_out);
        let nb = crate::lc::peek_next_aligned_base();
        let (s3, _) = run_convert(mk_sel(nb, &twice), &c.sched, ctx)?;
        if !s3.ok {
            viol!("convert-error", "run with a repeated file argument failed: {}", s3.err);
        }
        check_run(&s3, &sel_out, "run with a file argument named twice")?;
        ctx.probe("repeated_file_argument");
    }
    ctx.nontrivial = !expected.is_empty() && expected.len() < total;
    Ok(())
}

fn extra_args_summary(c: &Case) -> String {
    format!("b={:?} e={:?} lcs={:?} eac={:?} ffile({})={:?} sort={} style={} o={}", c.index_first, c.index_last, c.lcs, c.eac.iter().map(|f| f.eac_expr()).collect::<Vec<_>>(), c.ffile_kind, c.ffile, c.sort, c.style, c.output_file)
}
