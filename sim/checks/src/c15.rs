//! C15 — Remote server survives any command sequence and always answers (E5)

use crate::fw::{shrink_vec, Check, Ctx, Tier, Violation};
use crate::remotesim::*;
use crate::rng::Rng;
use crate::sh::{SchedCfg, SchedKind};
use crate::viol;
use serde::{Deserialize, Serialize};
use std::collections::{BTreeMap, BTreeSet};

#[derive(Clone, Debug, Serialize, Deserialize)]
pub struct Case {
    pub s: Session,
}

const KNOWN_CMDS: [&str; 12] = ["open", "close", "pause", "resume", "stream", "query", "stop", "stream_change_window", "stream_binary_search", "stream_search", "plugin_cmd", "fs"];

/// (body, valid, one_pass)
fn gen_stream_body(rng: &mut Rng) -> (String, bool, bool) {
    match rng.below(12) {
        0 => ("".into(), false, false),
        1 => ("{".into(), false, false),
        2 => (r#"{"window":[1]}"#.into(), false, false),
        3 => (r#"{"window":"x"}"#.into(), false, false),
        4 => (r#"{"filters":7}"#.into(), false, false),
        5 => (r#"{"filters":[{"type":0,"ecu":5}]}"#.into(), false, false),
        6 => (r#"{"window":[0,20],"one_pass":true}"#.into(), true, true),
        7 => (format!(r#"{{"window":[{},{}],"binary":{}}}"#, rng.below(30), rng.below(60), rng.bool()), true, false),
        8 => (format!(r#"{{"window":[0,{}],"filters":[{{"type":0,"ecu":"ECU0"}}]}}"#, 1 + rng.below(50)), true, false),
        9 => (r#"{"filters":[{"type":1,"apid":"APP1"},{"type":3,"ctid":"CTX1"}],"window":[0,1000]}"#.into(), true, false),
        10 => ("{}".into(), true, false),
        _ => (r#"{"window":[5,5]}"#.into(), true, false),
    }
}

fn gen_sref(rng: &mut Rng) -> SRef {
    match rng.below(10) {
        0 => SRef::Unknown(rng.u32() % 1000),
        1 => SRef::Garbage((*rng.pick(&["abc", "-1", "1.5", "99999999999999999999", "", "0x10"])).to_string()),
        2 => SRef::Missing,
        _ => SRef::Known(rng.usize(8)),
    }
}

fn gen_cmd(rng: &mut Rng) -> Cmd {
    match rng.weighted(&[10, 8, 4, 4, 22, 8, 8, 8, 10, 3, 3, 6, 6]) {
        0 => Cmd::Open {
            variant: if rng.chance(3, 5) { 0 } else { *rng.pick(&[1u8, 2, 3, 4, 5, 6, 7, 8, 9, 10, 11, 12, 13, 14, 15, 17, 17, 18, 18]) },
            sort: rng.chance(1, 4),
            collect: (*rng.pick(&["true", "true", "true", "\"all\"", "false", "\"none\"", "\"one_pass_streams\""])).to_string(),
        },
        1 => Cmd::Close,
        2 => Cmd::Pause,
        3 => Cmd::Resume,
        4 => {
            let (body, _, _) = gen_stream_body(rng);
            Cmd::Stream { query: rng.bool(), body }
        }
        5 => Cmd::Stop(gen_sref(rng)),
        6 => Cmd::ChangeWindow(gen_sref(rng), (*rng.pick(&["0,10", "5,50", "100,200", "7", "a,b", "", "3,2", "0,0,0"])).to_string()),
        7 => Cmd::BinarySearch(gen_sref(rng), (*rng.pick(&["index=0", "index=5", "index=99999", "index=x", "time_ms=0", "time_ms=1600000300000", "time_ms=abc", "foo=1", "", "index", "time_ms=18446744073709551615", "time_ms=18446744073709552", "index=4294967295", "index=4294967296", "time_ms=-1"])).to_string()),
        8 => Cmd::Search(
            gen_sref(rng),
            match rng.below(9) {
                0 => None,
                1 => Some("{".into()),
                2 => Some(r#"{"start_idx":"x"}"#.into()),
                3 => Some(r#"{"filters":[{"type":0,"ecu":"ECU0"}],"start_idx":0,"max_results":3}"#.into()),
                4 => Some(r#"{"max_results":0}"#.into()),
                5 => Some(r#"{"filters":"x"}"#.into()),
                6 => Some(format!(r#"{{"start_idx":{},"max_results":{}}}"#, rng.below(100), 1 + rng.below(5))),
                8 => Some(format!(r#"{{"start_idx":{},"max_results":{}}}"#, *rng.pick(&["0", "18446744073709551615", "4294967296", "-1", "1.5"]), *rng.pick(&["18446744073709551615", "9223372036854775807", "4294967296", "0", "-1", "1e30"]))),
                _ => Some("{}".into()),
            },
        ),
        9 => Cmd::PluginCmd((*rng.pick(&["", "{", "[]", r#"{"cmd":"save"}"#, r#"{"cmd":"save","name":"FileTransfer","params":{"saveAs":"/nonexistent/x"},"cmdCtx":{"save":{"idx":0}}}"#, r#"{"cmd":"x","name":"nope"}"#, r#"{"cmd":"x","name":"Rewrite"}"#, r#"{"cmd":"save","name":"FileTransfer","params":{"saveAs":"/nonexistent/y"},"cmdCtx":{"save":{"idx":0}}}"#, r#"{"name":"Rewrite"}"#])).to_string()),
        10 => Cmd::Fs((*rng.pick(&["", "{", "7", r#"{"cmd":"stat","path":"/"}"#, r#"{"cmd":"readDirectory","path":"/nonexistent"}"#, r#"{"cmd":"bogus"}"#, r#"{"path":"/"}"#, r#"{"cmd":"stat","path":"@ROOT@/corrupt.zip!/x"}"#, r#"{"cmd":"readDirectory","path":"@ROOT@/corrupt.zip!/x"}"#, r#"{"cmd":"readDirectory","path":"@ROOT@/corrupt.zip!/"}"#, r#"{"cmd":"stat","path":"@ROOT@/trace.dlt!/x"}"#, r#"{"cmd":"readDirectory","path":"@ROOT@"}"#])).to_string()),
        11 => Cmd::Raw((*rng.pick(&["", " ", "bogus", "open", "stop", "stream", "query", "stream_search", "stream_change_window", "OPEN {}", "close now", "\u{1F600}", "stream_binary_search 1", "resume x", "plugin_cmd", "fs"])).to_string()),
        _ => {
            if rng.bool() {
                Cmd::Wait(rng.urange(1, 200))
            } else {
                Cmd::WaitParsed
            }
        }
    }
}

/// one_pass sessions: messages are drained once every stream has seen them, so the interesting
/// histories are orders of resume / pause / stream creation / stop relative to the drain
fn gen_one_pass_cmd(rng: &mut Rng) -> Cmd {
    match rng.weighted(&[20, 20, 28, 14, 8, 10]) {
        0 => Cmd::Resume,
        1 => Cmd::Pause,
        2 => {
            let body = match rng.below(5) {
                0 => r#"{"one_pass":true}"#.to_string(),
                1 => format!(r#"{{"window":[0,{}],"one_pass":true,"binary":{}}}"#, 1 + rng.below(500), rng.bool()),
                2 => format!(r#"{{"window":[{},{}],"one_pass":true,"binary":true,"filters":[{{"type":0,"ecu":"ECU0"}}]}}"#, rng.below(20), 20 + rng.below(400)),
                3 => format!(r#"{{"window":[0,{}],"one_pass":true,"filters":[{{"type":1,"apid":"APP1"}}]}}"#, 1 + rng.below(500)),
                _ => r#"{"window":[0,100000],"one_pass":true,"binary":true}"#.to_string(),
            };
            Cmd::Stream { query: rng.chance(1, 4), body }
        }
        3 => Cmd::Wait(rng.urange(1, 120)),
        4 => Cmd::Stop(SRef::Known(rng.usize(6))),
        _ => gen_cmd(rng),
    }
}

pub fn gen_case(rng: &mut Rng, _tier: Tier) -> Case {
    let trace = gen_session_trace(rng, 400);
    let mut c = rng.sub("cmds");
    let n = c.urange(1, 25);
    let mut cmds = vec![];
    if rng.sub("zip").chance(1, 12) {
        // an archive is opened: extraction runs in a thread of its own; close/open at any moment relative to it
        let mut z = rng.sub("zipcmds");
        let open = |z: &mut Rng| Cmd::Open { variant: 16, sort: z.chance(1, 4), collect: (*z.pick(&["true", "true", "false"])).to_string() };
        cmds.push(open(&mut z));
        for _ in 0..z.urange(1, 8) {
            cmds.push(match z.below(6) {
                0 | 1 => Cmd::Close,
                2 => open(&mut z),
                3 => Cmd::Wait(*z.pick(&[1usize, 2, 5, 40, 300])),
                4 => Cmd::Open { variant: 0, sort: false, collect: "true".to_string() },
                _ => Cmd::Stream { query: z.bool(), body: r#"{"window":[0,50],"binary":true}"#.to_string() },
            });
        }
        cmds.push(Cmd::Close);
        let mut sched = SchedCfg::gen(&mut rng.sub("sched"));
        sched.max_steps = 6_000_000;
        return Case { s: Session { trace, cmds, sched, server_max_read: 0, poll_budget: 30_000 } };
    }
    if rng.sub("one_pass").chance(1, 6) {
        cmds.push(Cmd::Open { variant: 0, sort: c.chance(1, 4), collect: "\"one_pass_streams\"".to_string() });
        for _ in 0..n {
            cmds.push(gen_one_pass_cmd(&mut c));
        }
        let mut sched = SchedCfg::gen(&mut rng.sub("sched"));
        sched.max_steps = 6_000_000;
        return Case { s: Session { trace, cmds, sched, server_max_read: *c.pick(&[0usize, 0, 1, 7, 100]), poll_budget: 30_000 } };
    }
    if c.chance(4, 5) {
        cmds.push(Cmd::Open { variant: 0, sort: c.chance(1, 4), collect: (*c.pick(&["true", "true", "\"one_pass_streams\"", "false"])).to_string() });
    }
    for _ in 0..n {
        cmds.push(gen_cmd(&mut c));
    }
    let mut sched = SchedCfg::gen(&mut rng.sub("sched"));
    sched.max_steps = 6_000_000;
    Case {
        s: Session {
            trace,
            cmds,
            sched,
            server_max_read: *c.pick(&[0usize, 0, 1, 7, 100]),
            poll_budget: 30_000,
        },
    }
}

#[derive(Clone, Copy, PartialEq, Debug)]
enum Collect {
    All,
    OnePass,
    None,
}

/// is this stream body valid / one_pass (mirrors the generator's table)
fn body_props(body: &str) -> (bool, bool) {
    let v: Result<serde_json::Value, _> = serde_json::from_str(body);
    match v {
        Err(_) => (false, false),
        Ok(v) => {
            let win_ok = match &v["window"] {
                serde_json::Value::Array(a) => a.len() == 2,
                serde_json::Value::Null => true,
                _ => false,
            };
            let filters_ok = match &v["filters"] {
                serde_json::Value::Array(a) => a.iter().all(|f| adlt::filter::Filter::from_json(&f.to_string()).is_ok()),
                serde_json::Value::Null => true,
                _ => false,
            };
            (win_ok && filters_ok, v["one_pass"].as_bool().unwrap_or(false))
        }
    }
}

pub fn check_transcript(s: &Session, t: &Transcript, ctx: &mut Ctx) -> Result<(), Violation> {
    // pairing
    let mut open = false;
    let mut collect = Collect::All;
    let mut live: BTreeMap<u32, bool> = BTreeMap::new(); // id -> is_query
    let mut one_pass_ids: BTreeSet<u32> = BTreeSet::new();
    let mut ended: BTreeSet<u32> = BTreeSet::new();
    let mut known: Vec<u32> = vec![];
    let mut i = 0;
    while i < t.events.len() {
        match &t.events[i] {
            Ev::Msgs { id, msgs } if msgs.is_empty() => {
                ended.insert(*id);
            }
            Ev::Reply { cmd_no, text } if *cmd_no == usize::MAX => {
                viol!("unsolicited-reply", "text frame '{}' arrived although no command was pending", &text[..std::cmp::min(80, text.len())]);
            }
            Ev::NoReply { cmd_no } => {
                let cmd = &s.cmds[*cmd_no];
                viol!("no-reply", "command #{} {:?} was not answered within {} polls (server state: {} after {} loop iterations)", cmd_no, cmd, s.poll_budget, t.server_reason, t.server_iterations);
            }
            Ev::Sent { cmd_no, text } => {
                // the reply is the next Reply event with this cmd_no; frames in between are async
                let mut j = i + 1;
                let mut reply: Option<&String> = None;
                while j < t.events.len() {
                    match &t.events[j] {
                        Ev::Reply { cmd_no: c2, text } if c2 == cmd_no => {
                            reply = Some(text);
                            break;
                        }
                        Ev::NoReply { cmd_no: c2 } if c2 == cmd_no => break,
                        Ev::Msgs { id, msgs } if msgs.is_empty() => {
                            ended.insert(*id);
                        }
                        _ => {}
                    }
                    j += 1;
                }
                let reply = match reply {
                    Some(r) => r,
                    None => {
                        i += 1;
                        continue; // NoReply handled when reached
                    }
                };
                let cmd = &s.cmds[*cmd_no];
                let is_ok = reply.starts_with("ok:");
                let is_err = reply.starts_with("err:");
                let is_unknown = reply.starts_with("unknown command");
                if !(is_ok || is_err || is_unknown) {
                    viol!("malformed-reply", "command #{} '{}' answered with '{}'", cmd_no, text, &reply[..std::cmp::min(100, reply.len())]);
                }
                let word = text.split(' ').next().unwrap_or("");
                let known_cmd = KNOWN_CMDS.contains(&word);
                if known_cmd == is_unknown {
                    viol!("wrong-reply-kind", "command '{}' answered with '{}'", text, &reply[..std::cmp::min(100, reply.len())]);
                }
                if known_cmd && !reply.contains(word) {
                    viol!("reply-for-other-command", "command '{}' answered with '{}'", text, &reply[..std::cmp::min(100, reply.len())]);
                }
                ctx.probe(if is_ok { "replies_ok" } else if is_err { "replies_err" } else { "replies_unknown_command" });
                // ---- session model
                let expect: Option<bool> = match cmd {
                    Cmd::Open { variant, .. } => match *variant {
                        0 | 10 | 11 | 16 | 17 | 18 => Some(!open),
                        // other input formats / mixed inputs: accepted or refused, but answered; never while a file is open
                        12..=15 => if open { Some(false) } else { None },
                        _ => Some(false),
                    },
                    Cmd::Close | Cmd::Pause | Cmd::Resume => Some(open),
                    Cmd::Stream { body, .. } => {
                        let (valid, one_pass) = body_props(body);
                        if open && collect == Collect::OnePass && valid && one_pass {
                            None // ok unless messages were already drained (depends on parsing progress)
                        } else {
                            Some(open && collect != Collect::None && valid && (collect != Collect::OnePass || one_pass))
                        }
                    }
                    Cmd::Stop(r) | Cmd::ChangeWindow(r, _) | Cmd::BinarySearch(r, _) | Cmd::Search(r, _) => {
                        let idt = sref_text(r, &known);
                        match idt.parse::<u32>() {
                            Err(_) => Some(false),
                            Ok(id) => {
                                let is_live = open && live.contains_key(&id) && !(live[&id] && ended.contains(&id));
                                if !is_live {
                                    Some(false)
                                } else if one_pass_ids.contains(&id) && !matches!(cmd, Cmd::Stop(_)) {
                                    Some(false) // one_pass streams only support stop
                                } else {
                                    match cmd {
                                        Cmd::Stop(_) => Some(true),
                                        Cmd::ChangeWindow(_, w) => Some(w.split(' ').next().map(|w| w.contains(',')).unwrap_or(false) && !w.is_empty()),
                                        Cmd::BinarySearch(_, w) => {
                                            if w.starts_with("time_ms=") {
                                                Some(true)
                                            } else if w.starts_with("index=") {
                                                None // depends on parsing progress
                                            } else {
                                                Some(false)
                                            }
                                        }
                                        Cmd::Search(_, b) => match b {
                                            None => Some(true), // all search parameters have defaults
                                            Some(b) => {
                                                let v: Result<serde_json::Value, _> = serde_json::from_str(b);
                                                match v {
                                                    Err(_) => Some(false),
                                                    Ok(v) => {
                                                        let num_ok = |x: &serde_json::Value| x.is_null() || x.is_number();
                                                        // negative or fractional numbers: accepted or refused, but answered
                                                        let num_odd = |x: &serde_json::Value| x.is_number() && !x.is_u64();
                                                        let odd = num_odd(&v["start_idx"]) || num_odd(&v["max_results"]);
                                                        let f_ok = match &v["filters"] {
                                                            serde_json::Value::Array(a) => a.iter().all(|f| adlt::filter::Filter::from_json(&f.to_string()).is_ok()),
                                                            serde_json::Value::Null => true,
                                                            _ => false,
                                                        };
                                                        if odd {
                                                            ctx.probe("search_with_odd_numbers");
                                                            None
                                                        } else {
                                                            Some(num_ok(&v["start_idx"]) && num_ok(&v["max_results"]) && f_ok)
                                                        }
                                                    }
                                                }
                                            }
                                        },
                                        _ => None,
                                    }
                                }
                            }
                        }
                    }
                    Cmd::PluginCmd(_) => {
                        if !open {
                            Some(false)
                        } else {
                            None
                        }
                    }
                    Cmd::Fs(b) => {
                        let v: Result<serde_json::Value, _> = serde_json::from_str(b);
                        match v {
                            Ok(v) if v.is_object() => None,
                            _ => Some(false),
                        }
                    }
                    Cmd::Raw(r) => {
                        let w = r.split(' ').next().unwrap_or("");
                        match w {
                            "close" | "pause" | "resume" => Some(open),
                            _ => {
                                if KNOWN_CMDS.contains(&w) {
                                    Some(false).filter(|_| w != "fs" && w != "plugin_cmd")
                                } else {
                                    None
                                }
                            }
                        }
                    }
                    Cmd::SearchPaged { .. } => None,
                    Cmd::Wait(_) | Cmd::WaitParsed => None,
                };
                if let Some(e) = expect {
                    if known_cmd && e != is_ok {
                        viol!(
                            "state-inconsistent-reply",
                            "command #{} '{}' expected {} (open={}, collect={:?}, live ids {:?}, ended queries {:?}) but got '{}'",
                            cmd_no, text, if e { "ok" } else { "err" }, open, collect, live.keys().collect::<Vec<_>>(), ended, &reply[..std::cmp::min(120, reply.len())]
                        );
                    }
                }
                // ---- state update from the reply
                if is_ok {
                    match cmd {
                        Cmd::Open { collect: c, variant, .. } => {
                            match *variant {
                                10 | 11 => ctx.probe("opens_two_dlt_files"),
                                12 => ctx.probe("opens_logcat_file"),
                                13 => ctx.probe("opens_asc_file"),
                                14 => ctx.probe("opens_mixed_dlt_logcat"),
                                15 => ctx.probe("opens_genlog_file"),
                                16 => ctx.probe("opens_zip_archive"),
                                17 | 18 => ctx.probe("opens_with_same_named_plugins"),
                                _ => {}
                            }
                            open = true;
                            collect = match c.as_str() {
                                "false" | "\"none\"" | "\"false\"" => Collect::None,
                                "\"one_pass_streams\"" => Collect::OnePass,
                                _ => Collect::All,
                            };
                            ctx.probe("opens");
                        }
                        Cmd::Close => {
                            open = false;
                            live.clear();
                            ctx.probe("closes");
                        }
                        Cmd::Raw(r) if r.starts_with("close") => {
                            open = false;
                            live.clear();
                        }
                        Cmd::Stream { query, .. } => {
                            if let Some(id) = announced_id(reply) {
                                live.insert(id, *query);
                                known.push(id);
                                if let Cmd::Stream { body, .. } = cmd {
                                    if body_props(body).1 {
                                        one_pass_ids.insert(id);
                                    }
                                }
                                ctx.probe("streams_created");
                            } else {
                                viol!("stream-without-id", "'{}' answered ok without an id: '{}'", text, reply);
                            }
                        }
                        Cmd::Stop(r) => {
                            if let Ok(id) = sref_text(r, &known).parse::<u32>() {
                                live.remove(&id);
                            }
                        }
                        Cmd::ChangeWindow(r, _) => {
                            if let (Ok(old), Some(new)) = (sref_text(r, &known).parse::<u32>(), announced_id(reply)) {
                                let q = live.remove(&old).unwrap_or(false);
                                live.insert(new, q);
                                known.push(new);
                                ctx.probe("window_changes");
                            }
                        }
                        _ => {}
                    }
                }
                i = j;
            }
            _ => {}
        }
        i += 1;
    }
    if !t.client_finished {
        viol!("session-not-finished", "client did not finish");
    }
    if t.server_reason != "close_frame" && !t.events.iter().any(|e| matches!(e, Ev::NoReply { .. })) {
        viol!("server-loop-ended", "server loop ended with '{}' before the client closed the connection", t.server_reason);
    }
    Ok(())
}

pub struct C15;
impl Check for C15 {
    type Case = Case;
    const ID: &'static str = "C15";
    fn runs(t: Tier) -> u64 {
        t.pick(10_000, 400_000)
    }
    fn generate(rng: &mut Rng, tier: Tier, _idx: u64) -> Case {
        gen_case(rng, tier)
    }
    fn run(c: &Case, ctx: &mut Ctx) -> Result<(), Violation> {
        ctx.sig.u64(c.s.trace.len() as u64);
        for cmd in &c.s.cmds {
            ctx.sig.str(&format!("{:?}", cmd));
        }
        ctx.sig.u64(c.s.sched.seed);
        ctx.cfg("short_socket_reads");
        if c.s.server_max_read > 0 {
            ctx.fired("short_socket_reads");
        }
        let t = run_session(&c.s, ctx)?;
        ctx.event_u64(t.events.len() as u64);
        for e in &t.events {
            if let Ev::Reply { text, .. } = e {
                // stream ids come from a process-global counter: canonicalise digits in the log
                let mut t = String::new();
                for c in text.chars() {
                    if c.is_ascii_digit() {
                        if !t.ends_with('#') {
                            t.push('#');
                        }
                    } else {
                        t.push(c);
                    }
                    if t.len() >= 24 {
                        break;
                    }
                }
                ctx.event(&t);
            }
        }
        ctx.probe_n("server_loop_iterations", t.server_iterations as u64);
        check_transcript(&c.s, &t, ctx)?;
        ctx.nontrivial = c.s.cmds.len() > 1;
        Ok(())
    }
    fn shrink(c: &Case) -> Vec<Case> {
        let mut out = vec![];
        for cmds in shrink_vec(&c.s.cmds) {
            out.push(Case { s: Session { cmds, ..c.s.clone() } });
        }
        for t in shrink_vec(&c.s.trace) {
            if !t.is_empty() {
                out.push(Case { s: Session { trace: t, ..c.s.clone() } });
            }
        }
        if c.s.server_max_read != 0 {
            out.push(Case { s: Session { server_max_read: 0, ..c.s.clone() } });
        }
        if !matches!(c.s.sched.kind, SchedKind::RoundRobin) {
            let mut s = c.s.sched.clone();
            s.kind = SchedKind::RoundRobin;
            out.push(Case { s: Session { sched: s, ..c.s.clone() } });
        }
        if !c.s.sched.caps.is_empty() {
            let mut s = c.s.sched.clone();
            s.caps = vec![];
            out.push(Case { s: Session { sched: s, ..c.s.clone() } });
        }
        out
    }
    fn finding_key(_c: &Case, v: &Violation) -> Option<String> {
        crate::lc::lc_finding_key(v)
    }
    fn rule() -> &'static str {
        "one run = one websocket session against the real server functions: a simulated world (20-400 messages) written to a file (some opens name two DLT files, a logcat, CAN-ASC or generic-log file or a DLT+logcat mix instead), 1-26 commands drawn from a grammar over open/close/pause/resume/stream/query/stop/stream_change_window/stream_binary_search/stream_search/plugin_cmd/fs with valid bodies, every parameter individually missing, wrong types, malformed JSON, unknown/stale/garbage ids, commands before open and after close, double open, plus client-side waits; server and client are shuttle threads, the parser pipeline's channel bounds are overridden per run (so close arrives while stages are parked in full channels), the simulated clock tick varies how much the server drains per loop, the server's socket may deliver 1/7/100 bytes per read; non-trivial = more than one command; distinct = hash of (commands, trace length, schedule seed)"
    }
    fn assumptions() -> Vec<&'static str> {
        vec![
            "the TCP accept/event loop is a cfg-guarded generic replica (hook H2) of remote()'s per-connection loop calling the real process_file_context/process_incoming_text_message; TLS-less in-memory transport; opens of a zip archive run the real extraction thread (utils/progress.rs is under the seam, so the scheduler decides when it runs relative to close/open)",
            "replies are recognised as text frames not starting with 'stream:'; ids are taken from replies, never assumed",
            "a query id is expected 'not found' iff its end-of-query frame precedes the reply in the totally ordered frame sequence",
            "liveness = reply within 30000 client polls (each poll lets the scheduler run other threads)",
        ]
    }
    fn real_components() -> Vec<&'static str> {
        vec!["remote::process_incoming_text_message", "remote::process_file_context", "remote::FileContext::from + create_parser_thread (parse/lifecycle/plugin/sort threads)", "remote_utils::{StreamContext, process_stream_new_msgs}", "tungstenite framing on both ends"]
    }
    fn stub_components() -> Vec<&'static str> {
        vec!["connection loop replica verif_serve (H2)", "in-memory duplex transport (SimStream)", "simulated clock / recv_timeout / sleep (seam)", "client (command generator + session model)"]
    }
    fn required_reach() -> Vec<&'static str> {
        vec!["replies_ok", "replies_err", "replies_unknown_command", "opens", "closes", "streams_created", "window_changes", "try_send_full", "recv_timeout_timeout", "short_socket_reads", "opens_zip_archive", "opens_with_same_named_plugins", "opens_two_dlt_files", "opens_logcat_file", "opens_asc_file", "opens_genlog_file", "opens_mixed_dlt_logcat"]
    }
}
