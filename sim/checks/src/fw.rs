//! Common machinery: seed discipline, worker processes, violation capture, minimisation,
//! replay, known findings, evidence.

use crate::rng::{mix3, str_id, Hasher64, Rng};
use serde::{de::DeserializeOwned, Deserialize, Serialize};
use serde_json::{json, Value};
use std::collections::{BTreeMap, BTreeSet, HashSet};
use std::io::Write;
use std::path::{Path, PathBuf};
use std::process::{Command, Stdio};
use std::sync::Mutex;
use std::time::Instant;

pub const VERIF_DIR: &str = "/verif";

#[derive(Copy, Clone, Debug, PartialEq, Eq)]
pub enum Tier {
    Quick,
    Thorough,
}
impl Tier {
    pub fn parse(s: &str) -> Tier {
        match s {
            "thorough" => Tier::Thorough,
            _ => Tier::Quick,
        }
    }
    pub fn name(&self) -> &'static str {
        match self {
            Tier::Quick => "quick",
            Tier::Thorough => "thorough",
        }
    }
    pub fn pick<T>(&self, q: T, t: T) -> T {
        match self {
            Tier::Quick => q,
            Tier::Thorough => t,
        }
    }
}

#[derive(Clone, Debug, Serialize, Deserialize)]
pub struct Violation {
    pub class: String,
    pub detail: String,
}
impl Violation {
    pub fn new(class: impl Into<String>, detail: impl Into<String>) -> Violation {
        Violation {
            class: class.into(),
            detail: detail.into(),
        }
    }
}
#[macro_export]
macro_rules! viol {
    ($class:expr, $($arg:tt)*) => {
        return Err($crate::fw::Violation::new($class, format!($($arg)*)))
    };
}

/// per-run context handed to `Check::run`
#[derive(Default)]
pub struct Ctx {
    pub faults_configured: BTreeMap<&'static str, u64>,
    pub faults_fired: BTreeMap<&'static str, u64>,
    pub probes: BTreeMap<&'static str, u64>,
    pub sim_time_ns: u128,
    pub evals: u64,
    // per run
    pub nontrivial: bool,
    pub sig: Hasher64,
    pub ev: Hasher64,
    pub sched: Option<u64>,
    pub trace: Option<Vec<String>>,
}
impl Ctx {
    pub fn begin_run(&mut self) {
        self.nontrivial = false;
        self.sig = Hasher64::new();
        self.ev = Hasher64::new();
        self.sched = None;
    }
    pub fn cfg(&mut self, k: &'static str) {
        *self.faults_configured.entry(k).or_insert(0) += 1;
    }
    pub fn fired(&mut self, k: &'static str) {
        *self.faults_fired.entry(k).or_insert(0) += 1;
        self.nontrivial = true;
    }
    pub fn fired_n(&mut self, k: &'static str, n: u64) {
        if n > 0 {
            *self.faults_fired.entry(k).or_insert(0) += n;
            self.nontrivial = true;
        }
    }
    pub fn probe(&mut self, k: &'static str) {
        *self.probes.entry(k).or_insert(0) += 1;
    }
    pub fn probe_n(&mut self, k: &'static str, n: u64) {
        if n > 0 {
            *self.probes.entry(k).or_insert(0) += n;
        }
    }
    pub fn sim_time(&mut self, ns: u128) {
        self.sim_time_ns += ns;
    }
    /// record an observation in the event log hash (determinism self-test)
    pub fn event(&mut self, s: &str) {
        self.ev.str(s);
        if let Some(t) = self.trace.as_mut() {
            t.push(s.to_string());
        }
    }
    pub fn event_u64(&mut self, v: u64) {
        self.ev.u64(v);
    }
    /// collect seam probes (channel/clock counters) of this run
    pub fn take_seam_probes(&mut self) {
        let snap = adlt_verif_seam::probes::snapshot();
        for (i, v) in snap.iter().enumerate() {
            if *v > 0 {
                *self
                    .probes
                    .entry(adlt_verif_seam::probes::NAMES[i])
                    .or_insert(0) += *v;
            }
        }
    }
}

pub trait Check {
    type Case: Serialize + DeserializeOwned + Clone;
    const ID: &'static str;
    const LEVEL: &'static str = "exploration";
    fn runs(tier: Tier) -> u64;
    fn generate(rng: &mut Rng, tier: Tier, idx: u64) -> Self::Case;
    fn run(case: &Self::Case, ctx: &mut Ctx) -> Result<(), Violation>;
    fn shrink(_case: &Self::Case) -> Vec<Self::Case> {
        vec![]
    }
    /// key of the known finding that explains this violation (if any)
    fn finding_key(_case: &Self::Case, _v: &Violation) -> Option<String> {
        None
    }
    fn sample(case: &Self::Case) -> Value {
        serde_json::to_value(case).unwrap_or(Value::Null)
    }
    fn rule() -> &'static str;
    fn assumptions() -> Vec<&'static str> {
        vec![]
    }
    fn real_components() -> Vec<&'static str>;
    fn stub_components() -> Vec<&'static str>;
    fn worker_init() {}
    /// fault kinds / probes that must be > 0 over a whole batch (reach self-test)
    fn required_reach() -> Vec<&'static str> {
        vec![]
    }
}

// ---------------------------------------------------------------------------------------------
// panic capture

static LAST_PANIC: Mutex<Option<(String, String)>> = Mutex::new(None);

pub fn install_panic_hook() {
    std::panic::set_hook(Box::new(|info| {
        let loc = info
            .location()
            .map(|l| format!("{}:{}", l.file(), l.line()))
            .unwrap_or_else(|| "?".to_string());
        let msg = if let Some(s) = info.payload().downcast_ref::<&str>() {
            s.to_string()
        } else if let Some(s) = info.payload().downcast_ref::<String>() {
            s.clone()
        } else {
            "<non-string panic>".to_string()
        };
        if let Ok(mut g) = LAST_PANIC.lock() {
            if g.is_none() {
                *g = Some((loc, msg));
            }
        }
    }));
}

fn take_panic() -> Option<(String, String)> {
    LAST_PANIC.lock().ok().and_then(|mut g| g.take())
}

pub fn classify_panic(loc: &str, msg: &str) -> Violation {
    let short = |p: &str| -> String {
        let p = p.strip_prefix("/repo/").unwrap_or(p);
        if let Some(i) = p.find("/registry/src/") {
            let rest = &p[i + "/registry/src/".len()..];
            return rest.splitn(2, '/').nth(1).unwrap_or(rest).to_string();
        }
        if let Some(i) = p.find("/library/") {
            return p[i + 1..].to_string();
        }
        p.to_string()
    };
    let m: String = msg.chars().take(300).collect();
    if msg.contains("deadlock!") {
        return Violation::new("deadlock", m);
    }
    if msg.contains("exceeded max_steps") || msg.contains("max_steps") {
        return Violation::new("step-bound", m);
    }
    if loc.contains("/verif/") || loc.starts_with("checks/src") || loc.starts_with("seam/src") {
        return Violation::new(format!("harness-panic:{}", short(loc)), m);
    }
    Violation::new(format!("panic:{}", short(loc)), m)
}

/// run one case with panic capture
pub fn run_case<C: Check>(case: &C::Case, ctx: &mut Ctx) -> Result<(), Violation> {
    let _ = take_panic();
    ctx.begin_run();
    adlt_verif_seam::probes::reset();
    adlt_verif_seam::knobs::set_lc_regular_refresh_interval(0); // default unless the case says otherwise
    let r = std::panic::catch_unwind(std::panic::AssertUnwindSafe(|| C::run(case, ctx)));
    match r {
        Ok(r) => {
            let _ = take_panic(); // panics caught inside the check (if any) were handled there
            r
        }
        Err(_) => {
            let (loc, msg) = take_panic().unwrap_or(("?".into(), "?".into()));
            Err(classify_panic(&loc, &msg))
        }
    }
}

/// helper for checks that catch panics of a sub-step themselves
pub fn catch<T>(f: impl FnOnce() -> T) -> Result<T, Violation> {
    let _ = take_panic();
    match std::panic::catch_unwind(std::panic::AssertUnwindSafe(f)) {
        Ok(v) => Ok(v),
        Err(_) => {
            let (loc, msg) = take_panic().unwrap_or(("?".into(), "?".into()));
            Err(classify_panic(&loc, &msg))
        }
    }
}

// ---------------------------------------------------------------------------------------------
// protocol output (stdout/stderr of adlt chatter is redirected away in child modes)

static PROTO_OUT: Mutex<Option<std::fs::File>> = Mutex::new(None);

/// keep a private copy of stdout for protocol lines and silence fd 1/2 (adlt println! chatter)
pub fn silence_stdio() {
    use std::os::unix::io::FromRawFd;
    unsafe {
        let saved = libc::dup(1);
        let logp = std::env::var("VERIF_WORKER_LOG").unwrap_or_else(|_| "/dev/null".to_string());
        let c = std::ffi::CString::new(logp).unwrap();
        let null = libc::open(c.as_ptr(), libc::O_WRONLY | libc::O_CREAT | libc::O_APPEND, 0o644);
        libc::dup2(null, 1);
        libc::dup2(null, 2);
        libc::close(null);
        *PROTO_OUT.lock().unwrap() = Some(std::fs::File::from_raw_fd(saved));
    }
}
pub fn proto_line(s: &str) {
    let mut g = PROTO_OUT.lock().unwrap();
    if let Some(f) = g.as_mut() {
        let _ = writeln!(f, "{}", s);
    } else {
        println!("{}", s);
    }
}

// ---------------------------------------------------------------------------------------------
// replay files and known findings

#[derive(Clone, Debug, Serialize, Deserialize)]
pub struct ReplayFile {
    pub property: String,
    pub class: String,
    pub detail: String,
    pub seed: u64,
    pub idx: u64,
    pub tier: String,
    #[serde(default)]
    pub shrunk: bool,
    #[serde(default)]
    pub shrink_attempts: u64,
    #[serde(default)]
    pub finding_key: Option<String>,
    pub case: Value,
}

#[derive(Clone, Debug, Serialize, Deserialize)]
pub struct KnownFinding {
    pub id: String,
    pub property: String,
    pub key: String,
    /// "open" or "fixed"
    pub status: String,
    #[serde(default)]
    pub commit: Option<String>,
    pub what: String,
    #[serde(default)]
    pub replay: Option<String>,
}

pub fn load_known_findings() -> Vec<KnownFinding> {
    let p = format!("{}/known_findings.json", VERIF_DIR);
    match std::fs::read_to_string(&p) {
        Ok(s) => serde_json::from_str(&s).unwrap_or_else(|e| {
            eprintln!("HARNESS-ERROR cannot parse {}: {}", p, e);
            std::process::exit(2)
        }),
        Err(_) => vec![],
    }
}

fn run_seed(seed: u64, id: &str, idx: u64) -> u64 {
    mix3(seed, str_id(id), idx)
}

pub fn gen_case<C: Check>(seed: u64, tier: Tier, idx: u64) -> C::Case {
    let mut rng = Rng::new(run_seed(seed, C::ID, idx));
    C::generate(&mut rng, tier, idx)
}

// ---------------------------------------------------------------------------------------------
// worker

#[derive(Default, Serialize, Deserialize)]
struct WorkerDone {
    runs: u64,
    evals: u64,
    faults_configured: BTreeMap<String, u64>,
    faults_fired: BTreeMap<String, u64>,
    probes: BTreeMap<String, u64>,
    /// microseconds (serde_json cannot carry integers above u64::MAX; nanoseconds of a long batch can exceed that)
    sim_time_us: u128,
    nontrivial_sigs: Vec<u64>,
    scheds: Vec<u64>,
    digest: Vec<(u64, u64)>,
}

pub struct WorkerArgs {
    pub tier: Tier,
    pub seed: u64,
    pub start: u64,
    pub stride: u64,
    pub total: u64,
    pub out: PathBuf,
    pub digest: bool,
    pub wall_cap_s: u64,
    /// how many more times this stride may hand over to a fresh process after a panic
    pub restarts_left: u64,
}

pub fn worker<C: Check>(a: WorkerArgs) {
    install_panic_hook();
    silence_stdio();
    C::worker_init();
    let mut out = std::fs::OpenOptions::new()
        .create(true)
        .append(true)
        .open(&a.out)
        .expect("worker out");
    let mut ctx = Ctx::default();
    let mut sigs: HashSet<u64> = HashSet::new();
    let mut scheds: HashSet<u64> = HashSet::new();
    let mut digest = vec![];
    let mut runs = 0u64;
    let t0 = Instant::now();
    let mut idx = a.start;
    // sensitivity runs only need to know whether a change is caught: stop a stride after n violations
    let max_viol: u64 = std::env::var("VERIF_WORKER_MAX_VIOL").ok().and_then(|s| s.parse().ok()).unwrap_or(u64::MAX);
    let mut n_viol = 0u64;
    while idx < a.total {
        if a.wall_cap_s > 0 && runs % 16 == 0 && t0.elapsed().as_secs() >= a.wall_cap_s {
            let _ = writeln!(out, "{}", json!({"t":"capped","next":idx}));
            break;
        }
        let _ = out.write_all(format!("S {}\n", idx).as_bytes());
        let case = gen_case::<C>(a.seed, a.tier, idx);
        let ev0 = ctx.evals;
        let r = run_case::<C>(&case, &mut ctx);
        if ctx.evals == ev0 {
            ctx.evals += 1;
        }
        runs += 1;
        if ctx.nontrivial {
            sigs.insert(ctx.sig.finish());
        }
        if let Some(s) = ctx.sched {
            scheds.insert(s);
        }
        let mut verdict = 0u64;
        let mut panicked = false;
        if let Err(v) = r {
            verdict = str_id(&v.class);
            panicked = v.class.contains("panic");
            let fk = C::finding_key(&case, &v);
            let _ = writeln!(
                out,
                "{}",
                json!({"t":"viol","idx":idx,"class":v.class,"detail":v.detail,"key":fk})
            );
        }
        if a.digest {
            digest.push((idx, ctx.ev.finish() ^ verdict));
        }
        let _ = out.write_all(format!("E {}\n", idx).as_bytes());
        idx += a.stride;
        if verdict != 0 {
            n_viol += 1;
            if n_viol >= max_viol {
                break;
            }
        }
        if verdict != 0 && panicked && a.restarts_left > 0 && idx < a.total {
            // a panic may have left process-global state behind (poisoned locks): continue in a fresh process
            let _ = writeln!(out, "{}", json!({"t":"restart","next":idx}));
            break;
        }
    }
    let tostr = |m: &BTreeMap<&'static str, u64>| -> BTreeMap<String, u64> {
        m.iter().map(|(k, v)| (k.to_string(), *v)).collect()
    };
    let done = WorkerDone {
        runs,
        evals: ctx.evals,
        faults_configured: tostr(&ctx.faults_configured),
        faults_fired: tostr(&ctx.faults_fired),
        probes: tostr(&ctx.probes),
        sim_time_us: std::cmp::min(ctx.sim_time_ns / 1000, u64::MAX as u128),
        nontrivial_sigs: sigs.into_iter().collect(),
        scheds: scheds.into_iter().collect(),
        digest,
    };
    let _ = writeln!(
        out,
        "{}",
        json!({"t":"done","d":serde_json::to_value(&done).unwrap()})
    );
}

// ---------------------------------------------------------------------------------------------
// parent driver

#[derive(Clone, Debug)]
struct FoundViolation {
    idx: u64,
    class: String,
    detail: String,
    key: Option<String>,
    /// an earlier run of the same worker process ended in a panic: process-global state (poisoned
    /// locks, half-updated statics) may be contaminated, so this one counts only if it replays
    after_panic: bool,
}

pub struct DriveOpts {
    pub tier: Tier,
    pub seed: u64,
    pub jobs: u64,
    pub runs_override: Option<u64>,
    pub digest_out: Option<PathBuf>,
    pub write_evidence: bool,
}

fn tmp_dir(id: &str) -> PathBuf {
    let base = std::env::var("VERIF_TMP").unwrap_or_else(|_| format!("{}/sim/target/tmp", VERIF_DIR));
    let p = PathBuf::from(base).join(format!("{}-{}", id, std::process::id()));
    let _ = std::fs::remove_dir_all(&p);
    std::fs::create_dir_all(&p).expect("tmp dir");
    p
}

struct WorkerResult {
    done: Option<WorkerDone>,
    viols: Vec<FoundViolation>,
    last_started: Option<u64>,
    last_ended: Option<u64>,
    capped: bool,
    /// the worker stopped after a panic to get a fresh process; continue at this index
    restart_next: Option<u64>,
}

fn parse_worker_out(p: &Path) -> WorkerResult {
    let s = std::fs::read_to_string(p).unwrap_or_default();
    let mut r = WorkerResult {
        done: None,
        viols: vec![],
        last_started: None,
        last_ended: None,
        capped: false,
        restart_next: None,
    };
    let mut seen_panic = false;
    for l in s.lines() {
        if let Some(x) = l.strip_prefix("S ") {
            r.last_started = x.parse().ok();
        } else if let Some(x) = l.strip_prefix("E ") {
            r.last_ended = x.parse().ok();
        } else if l.starts_with('{') {
            if let Ok(v) = serde_json::from_str::<Value>(l) {
                match v["t"].as_str() {
                    Some("viol") => {
                        let class = v["class"].as_str().unwrap_or("?").to_string();
                        r.viols.push(FoundViolation {
                            idx: v["idx"].as_u64().unwrap_or(0),
                            class: class.clone(),
                            detail: v["detail"].as_str().unwrap_or("").to_string(),
                            key: v["key"].as_str().map(|s| s.to_string()),
                            after_panic: seen_panic,
                        });
                        if class.contains("panic") {
                            seen_panic = true;
                        }
                    }
                    Some("restart") => r.restart_next = v["next"].as_u64(),
                    Some("done") => r.done = serde_json::from_value(v["d"].clone()).ok(),
                    Some("capped") => r.capped = true,
                    _ => {}
                }
            }
        }
    }
    r
}

pub fn drive<C: Check>(o: DriveOpts) -> i32 {
    let t0 = Instant::now();
    let total = o.runs_override.unwrap_or_else(|| C::runs(o.tier));
    let jobs = std::cmp::max(1, std::cmp::min(o.jobs, total));
    let tmp = tmp_dir(C::ID);
    let exe = std::env::current_exe().expect("exe");
    let wall_cap: u64 = std::env::var("VERIF_WALL_CAP_S")
        .ok()
        .and_then(|s| s.parse().ok())
        .unwrap_or(o.tier.pick(600, 7200));

    let mut agg = WorkerDone::default();
    let mut viols: Vec<FoundViolation> = vec![];
    let mut capped = false;
    let mut harness_errors: Vec<String> = vec![];

    // each slot k handles idx = k, k+jobs, ...; a slot is restarted after an abort
    let mut slots: Vec<(u64, u64, std::process::Child, PathBuf)> = vec![];
    let spawn = |k: u64, start: u64, gen: u64| -> (u64, u64, std::process::Child, PathBuf) {
        let out = tmp.join(format!("w{}-{}.jsonl", k, gen));
        let mut cmd = Command::new(&exe);
        cmd.arg("worker")
            .arg(C::ID)
            .arg("--tier")
            .arg(o.tier.name())
            .arg("--seed")
            .arg(o.seed.to_string())
            .arg("--start")
            .arg(start.to_string())
            .arg("--stride")
            .arg(jobs.to_string())
            .arg("--total")
            .arg(total.to_string())
            .arg("--wall-cap")
            .arg(wall_cap.to_string())
            .arg("--restarts-left")
            .arg(40u64.saturating_sub(gen).to_string())
            .arg("--out")
            .arg(&out);
        if o.digest_out.is_some() {
            cmd.arg("--digest");
        }
        cmd.stdin(Stdio::null());
        let child = cmd.spawn().expect("spawn worker");
        (k, gen, child, out)
    };
    for k in 0..jobs {
        slots.push(spawn(k, k, 0));
    }
    let mut digest_all: Vec<(u64, u64)> = vec![];
    while let Some((k, gen, mut child, out)) = slots.pop() {
        let status = child.wait().expect("wait");
        let wr = parse_worker_out(&out);
        viols.extend(wr.viols.iter().cloned());
        capped |= wr.capped;
        if let Some(d) = wr.done {
            agg.runs += d.runs;
            agg.evals += d.evals;
            for (k, v) in d.faults_configured {
                *agg.faults_configured.entry(k).or_insert(0) += v;
            }
            for (k, v) in d.faults_fired {
                *agg.faults_fired.entry(k).or_insert(0) += v;
            }
            for (k, v) in d.probes {
                *agg.probes.entry(k).or_insert(0) += v;
            }
            agg.sim_time_us += d.sim_time_us;
            agg.nontrivial_sigs.extend(d.nontrivial_sigs);
            agg.scheds.extend(d.scheds);
            digest_all.extend(d.digest);
            if let Some(n) = wr.restart_next {
                if n < total {
                    slots.push(spawn(k, n, gen + 1));
                }
            }
        } else {
            // abnormal end: attribute to the run that was started and not ended
            let st = format!("{:?}", status);
            match wr.last_started {
                Some(i) if wr.last_ended != Some(i) => {
                    let case = gen_case::<C>(o.seed, o.tier, i);
                    let v = Violation::new(format!("abort:{}", abort_class(&status)), st.clone());
                    let key = C::finding_key(&case, &v);
                    viols.push(FoundViolation {
                        idx: i,
                        class: v.class,
                        detail: v.detail,
                        key,
                        after_panic: false,
                    });
                    agg.runs += 1; // the aborted one; completed ones of this worker are lost in stats
                    if i + jobs < total && gen < 200 {
                        slots.push(spawn(k, i + jobs, gen + 1));
                    }
                }
                _ => harness_errors.push(format!("worker {} died without progress: {}", k, st)),
            }
        }
    }
    let wall = t0.elapsed().as_secs_f64();

    // ---- classify
    let known = load_known_findings();
    let open_keys: BTreeMap<String, &KnownFinding> = known
        .iter()
        .filter(|k| k.property == C::ID && k.status == "open")
        .map(|k| (k.key.clone(), k))
        .collect();
    let mut known_hits: BTreeMap<String, u64> = BTreeMap::new();
    let mut unknown: Vec<FoundViolation> = vec![];
    viols.sort_by_key(|v| v.idx);
    for v in &viols {
        if v.class.starts_with("harness-panic") {
            harness_errors.push(format!("idx {} {} {}", v.idx, v.class, v.detail));
            continue;
        }
        match &v.key {
            Some(k) if open_keys.contains_key(k) => *known_hits.entry(k.clone()).or_insert(0) += 1,
            _ => unknown.push(v.clone()),
        }
    }
    for (k, n) in &known_hits {
        println!(
            "KNOWN-FINDING: property={} {} [{} runs] {}",
            C::ID,
            k,
            n,
            open_keys[k].what
        );
    }

    // a listed open finding which this batch happened not to hit is shown through its committed example:
    // the example is replayed in a fresh process and the line is printed iff it still fails the same way
    for (k, kf) in &open_keys {
        if known_hits.contains_key(k) {
            continue;
        }
        let Some(rp) = &kf.replay else { continue };
        let path = if rp.starts_with('/') { PathBuf::from(rp) } else { PathBuf::from(VERIF_DIR).join(rp) };
        if !path.exists() {
            continue;
        }
        let out = Command::new(&exe).arg("replay-inner").arg(C::ID).arg(&path).stdin(Stdio::null()).output();
        let still = out
            .ok()
            .and_then(|o| String::from_utf8_lossy(&o.stdout).lines().find(|l| l.starts_with('{')).and_then(|l| serde_json::from_str::<Value>(l).ok()))
            .map(|v| v["ok"].as_bool() == Some(false) && v["key"].as_str() == Some(k.as_str()))
            .unwrap_or(false);
        if still {
            println!("KNOWN-FINDING: property={} {} [0 runs of this batch; committed example {} still fails] {}", C::ID, k, rp, kf.what);
        } else {
            println!("note: listed finding {} was not hit and its committed example {} no longer fails", k, rp);
        }
    }

    // ---- report unknown violations: one per distinct class (bounded), minimised and confirmed
    let mut exit = 0;
    let mut reported = 0;
    let mut seen_classes: BTreeSet<String> = BTreeSet::new();
    let max_reports: usize = std::env::var("VERIF_MAX_REPORTS")
        .ok()
        .and_then(|s| s.parse().ok())
        .unwrap_or(3);
    // candidates per class in run order: a violation may depend on state an earlier run left behind in
    // the worker process (caches, poisoned locks); such an occurrence does not replay in a fresh process,
    // so the first occurrence that does is reported
    let mut by_class: Vec<(String, Vec<&FoundViolation>)> = vec![];
    for v in &unknown {
        let cls = format!("{}|{:?}", v.class, v.key);
        seen_classes.insert(cls.clone());
        match by_class.iter_mut().find(|(c, _)| *c == cls) {
            Some((_, l)) => l.push(v),
            None => by_class.push((cls, vec![v])),
        }
    }
    for (_cls, cands) in by_class.iter() {
        if reported >= max_reports {
            break;
        }
        reported += 1;
        let mut confirmed: Option<(&FoundViolation, PathBuf)> = None;
        let mut not_replaying = 0usize;
        let mut first_failure: Option<String> = None;
        for v in cands.iter().take(12) {
            let case = gen_case::<C>(o.seed, o.tier, v.idx);
            let rf = ReplayFile {
                property: C::ID.to_string(),
                class: v.class.clone(),
                detail: v.detail.clone(),
                seed: o.seed,
                idx: v.idx,
                tier: o.tier.name().to_string(),
                shrunk: false,
                shrink_attempts: 0,
                finding_key: v.key.clone(),
                case: serde_json::to_value(&case).unwrap(),
            };
            let h = crate::rng::fnv1a(format!("{}{}{}{}", C::ID, v.class, o.seed, v.idx).as_bytes());
            let path = PathBuf::from(format!("{}/replays/{}-{:08x}.json", VERIF_DIR, C::ID, h as u32));
            let _ = std::fs::create_dir_all(path.parent().unwrap());
            std::fs::write(&path, serde_json::to_string_pretty(&rf).unwrap()).expect("write replay");
            let replays = |p: &Path| -> (bool, String) {
                let conf = Command::new(&exe).arg("replay").arg(p).stdin(Stdio::null()).output().expect("replay child");
                let so = String::from_utf8_lossy(&conf.stdout).to_string();
                (so.contains(&format!("VIOLATION property={}", C::ID)), so)
            };
            // does the occurrence stand on its own (fresh process)?
            let (ok, so) = replays(&path);
            if !ok {
                not_replaying += 1;
                if first_failure.is_none() && !v.after_panic {
                    first_failure = Some(format!("violation {} at idx {} did not replay from {} (output: {})", v.class, v.idx, path.display(), so.trim()));
                }
                let _ = std::fs::remove_file(&path);
                continue;
            }
            // minimise in a child (time-boxed), then confirm in a fresh process
            let unshrunk = std::fs::read(&path).unwrap_or_default();
            if !v.class.starts_with("abort:") && std::env::var("VERIF_NO_SHRINK").is_err() {
                let _ = Command::new(&exe).arg("shrink").arg(&path).stdin(Stdio::null()).status();
            }
            let (mut ok2, mut so2) = replays(&path);
            if !ok2 {
                // the minimiser runs many variants in one process: state left behind by one variant can make
                // a later one look violating. Fall back to the occurrence as found.
                std::fs::write(&path, &unshrunk).expect("restore replay");
                let r = replays(&path);
                ok2 = r.0;
                so2 = r.1;
            }
            if ok2 {
                confirmed = Some((v, path));
                break;
            }
            if first_failure.is_none() {
                first_failure = Some(format!("violation {} at idx {} did not replay after minimisation from {} (output: {})", v.class, v.idx, path.display(), so2.trim()));
            }
        }
        match confirmed {
            Some((v, path)) => {
                println!("VIOLATION property={} replay={} class={} idx={} seed={}", C::ID, path.display(), v.class, v.idx, o.seed);
                if not_replaying > 0 {
                    println!("note: {} earlier occurrence(s) of {} depended on state left behind by earlier runs of the same worker process and did not replay on their own", not_replaying, v.class);
                }
                exit = 1;
            }
            None => match first_failure {
                Some(f) => harness_errors.push(f),
                None => println!("note: {} occurrence(s) of {} followed a panic in the same worker process and do not replay in a fresh one (contaminated process state, not counted)", not_replaying, cands[0].class),
            },
        }
    }
    if unknown.len() > reported {
        println!(
            "note: {} violating runs in total, {} distinct classes, {} reported",
            unknown.len(),
            seen_classes.len(),
            reported
        );
    }

    // ---- reach self-check (not a property verdict)
    let mut reach_missing = vec![];
    for r in C::required_reach() {
        let n = agg.faults_fired.get(r).copied().unwrap_or(0) + agg.probes.get(r).copied().unwrap_or(0);
        if n == 0 {
            reach_missing.push(r);
        }
    }

    // ---- evidence
    let nsig: HashSet<u64> = agg.nontrivial_sigs.iter().copied().collect();
    let nsched: HashSet<u64> = agg.scheds.iter().copied().collect();
    if o.write_evidence {
        let mut samples = vec![];
        let ns = std::cmp::min(3, total);
        for i in 0..ns {
            let idx = i * (total / ns);
            let c = gen_case::<C>(o.seed, o.tier, idx);
            samples.push(json!({"idx": idx, "case": truncate_json(C::sample(&c), 0)}));
        }
        let faults: BTreeMap<String, Value> = agg
            .faults_configured
            .keys()
            .chain(agg.faults_fired.keys())
            .collect::<BTreeSet<_>>()
            .into_iter()
            .map(|k| {
                (
                    k.clone(),
                    json!({"configured": agg.faults_configured.get(k).copied().unwrap_or(0),
                           "fired": agg.faults_fired.get(k).copied().unwrap_or(0)}),
                )
            })
            .collect();
        let ev = json!({
            "property_id": C::ID,
            "tier": o.tier.name(),
            "seed": o.seed,
            "level": C::LEVEL,
            "coverage": {
                "evaluations": agg.evals,
                "simulated_runs": agg.runs,
                "distinct_nontrivial": nsig.len(),
                "rule": C::rule(),
                "samples": samples,
                "runs_per_hour": if wall > 0.0 { (agg.runs as f64 / wall * 3600.0) as u64 } else { 0 },
                "simulated_time_s": agg.sim_time_us as f64 / 1e6,
                "fault_kinds": faults,
                "reach_probes": agg.probes,
                "reach_missing": reach_missing,
                "distinct_schedules": nsched.len(),
                "distinct_schedules_measure": "distinct hashes of the sequence of (task id, seam operation, outcome) over every thread spawn, sleep, channel send/try_send/recv/try_recv and empty socket read of a run; executions in which only one task touched the seam are not counted",
                "components_real": C::real_components(),
                "components_stub": C::stub_components(),
                "known_findings_hit": known_hits,
                "violating_runs_unlisted": unknown.len(),
                "wall_capped": capped,
                "workers": jobs,
                "exhaustive": false,
            },
            "assumptions": C::assumptions(),
            "wall_s": wall,
            "violations": if exit == 1 { seen_classes.len() } else { 0 },
        });
        let p = format!("{}/evidence/{}.json", VERIF_DIR, C::ID);
        let _ = std::fs::create_dir_all(format!("{}/evidence", VERIF_DIR));
        std::fs::write(&p, serde_json::to_string_pretty(&ev).unwrap()).expect("evidence");
    }
    if let Some(dp) = &o.digest_out {
        digest_all.sort();
        let mut s = String::new();
        for (i, h) in digest_all {
            s.push_str(&format!("{} {:016x}\n", i, h));
        }
        let _ = std::fs::write(dp, s);
    }
    let _ = std::fs::remove_dir_all(&tmp);

    println!(
        "{} {} seed={} runs={} evals={} distinct_nontrivial={} schedules={} known_hits={} unlisted_violations={} wall={:.1}s{}",
        C::ID,
        o.tier.name(),
        o.seed,
        agg.runs,
        agg.evals,
        nsig.len(),
        nsched.len(),
        known_hits.values().sum::<u64>(),
        unknown.len(),
        wall,
        if capped { " (wall-capped)" } else { "" }
    );
    if !reach_missing.is_empty() {
        println!("note: reach probes at zero: {:?}", reach_missing);
    }
    if !harness_errors.is_empty() {
        for e in harness_errors.iter().take(10) {
            println!("HARNESS-ERROR {}", e);
        }
        if exit == 0 {
            exit = 2;
        }
    }
    exit
}

fn abort_class(st: &std::process::ExitStatus) -> String {
    use std::os::unix::process::ExitStatusExt;
    if let Some(s) = st.signal() {
        format!("signal{}", s)
    } else {
        format!("exit{}", st.code().unwrap_or(-1))
    }
}

/// shorten long strings/arrays in samples so evidence files stay readable
pub fn truncate_json(v: Value, depth: usize) -> Value {
    match v {
        Value::String(s) if s.len() > 160 => {
            Value::String(format!("{}…(+{} chars)", &s[..s.char_indices().nth(120).map(|x| x.0).unwrap_or(0)], s.len() - 120))
        }
        Value::Array(a) => {
            let n = a.len();
            let lim = if depth == 0 { 40 } else { 12 };
            let mut out: Vec<Value> = a
                .into_iter()
                .take(lim)
                .map(|x| truncate_json(x, depth + 1))
                .collect();
            if n > lim {
                out.push(Value::String(format!("…(+{} more)", n - lim)));
            }
            Value::Array(out)
        }
        Value::Object(m) => Value::Object(
            m.into_iter()
                .map(|(k, x)| (k, truncate_json(x, depth + 1)))
                .collect(),
        ),
        x => x,
    }
}

// ---------------------------------------------------------------------------------------------
// replay / shrink

pub fn load_replay(p: &Path) -> ReplayFile {
    let s = std::fs::read_to_string(p).unwrap_or_else(|e| {
        eprintln!("HARNESS-ERROR cannot read {}: {}", p.display(), e);
        std::process::exit(2)
    });
    serde_json::from_str(&s).unwrap_or_else(|e| {
        eprintln!("HARNESS-ERROR cannot parse {}: {}", p.display(), e);
        std::process::exit(2)
    })
}

/// child: run the case of a replay file once, print one protocol line
pub fn replay_inner<C: Check>(p: &Path) {
    install_panic_hook();
    silence_stdio();
    C::worker_init();
    let rf = load_replay(p);
    let case: C::Case = serde_json::from_value(rf.case).expect("case");
    let mut ctx = Ctx::default();
    if std::env::var("VERIF_TRACE").is_ok() {
        ctx.trace = Some(vec![]);
    }
    let r = run_case::<C>(&case, &mut ctx);
    match r {
        Ok(()) => proto_line(&json!({"ok":true,"ev":format!("{:016x}",ctx.ev.finish())}).to_string()),
        Err(v) => {
            let key = C::finding_key(&case, &v);
            proto_line(
                &json!({"ok":false,"class":v.class,"detail":v.detail,"key":key,"ev":format!("{:016x}",ctx.ev.finish())})
                    .to_string(),
            )
        }
    }
    if let Some(t) = ctx.trace {
        for l in t {
            proto_line(&format!("TRACE {}", l));
        }
    }
}

/// parent side of replay: run replay-inner in a fresh process, interpret the result
pub fn replay(p: &Path) -> i32 {
    let rf = load_replay(p);
    let exe = std::env::current_exe().expect("exe");
    let out = Command::new(&exe)
        .arg("replay-inner")
        .arg(&rf.property)
        .arg(p)
        .stdin(Stdio::null())
        .output()
        .expect("replay-inner");
    let so = String::from_utf8_lossy(&out.stdout).to_string();
    let line = so.lines().find(|l| l.starts_with('{'));
    let (class, detail, key) = match line.and_then(|l| serde_json::from_str::<Value>(l).ok()) {
        Some(v) => {
            if v["ok"].as_bool() == Some(true) {
                println!("replay {}: property held (no violation)", p.display());
                return 0;
            }
            (
                v["class"].as_str().unwrap_or("?").to_string(),
                v["detail"].as_str().unwrap_or("").to_string(),
                v["key"].as_str().map(|s| s.to_string()),
            )
        }
        None => (
            format!("abort:{}", abort_class(&out.status)),
            String::new(),
            None,
        ),
    };
    for l in so.lines().filter(|l| l.starts_with("TRACE ")) {
        println!("{}", l);
    }
    if class.starts_with("harness-panic") {
        println!("HARNESS-ERROR {} {}", class, detail);
        return 2;
    }
    let known = load_known_findings();
    if let Some(k) = &key {
        if let Some(kf) = known
            .iter()
            .find(|f| f.property == rf.property && &f.key == k && f.status == "open")
        {
            println!("KNOWN-FINDING: property={} {} {}", rf.property, k, kf.what);
            println!("  class={} detail={}", class, detail);
            return 0;
        }
    }
    println!(
        "VIOLATION property={} replay={} class={}",
        rf.property,
        p.display(),
        class
    );
    println!("  detail: {}", detail);
    if class != rf.class {
        println!("  note: recorded class was {}", rf.class);
    }
    1
}

/// child: greedy minimisation while the same violation class (and finding key) persists
pub fn shrink<C: Check>(p: &Path) {
    install_panic_hook();
    silence_stdio();
    C::worker_init();
    let mut rf = load_replay(p);
    let mut case: C::Case = serde_json::from_value(rf.case.clone()).expect("case");
    let mut ctx = Ctx::default();
    let budget_s: u64 = std::env::var("VERIF_SHRINK_S")
        .ok()
        .and_then(|s| s.parse().ok())
        .unwrap_or(45);
    let t0 = Instant::now();
    // the recorded failure must reproduce here, else leave the file alone
    match run_case::<C>(&case, &mut ctx) {
        Err(v) if v.class == rf.class => {
            rf.detail = v.detail;
        }
        _ => return,
    }
    let mut attempts = 0u64;
    'outer: loop {
        let cands = C::shrink(&case);
        for c in cands {
            if t0.elapsed().as_secs() >= budget_s || attempts > 20_000 {
                break 'outer;
            }
            attempts += 1;
            if let Err(v) = run_case::<C>(&c, &mut ctx) {
                if v.class == rf.class && C::finding_key(&c, &v) == rf.finding_key {
                    case = c;
                    rf.detail = v.detail;
                    continue 'outer;
                }
            }
        }
        break;
    }
    rf.case = serde_json::to_value(&case).unwrap();
    rf.shrunk = true;
    rf.shrink_attempts = attempts;
    let _ = std::fs::write(p, serde_json::to_string_pretty(&rf).unwrap());
}

// ---------------------------------------------------------------------------------------------
// generic shrinking helpers

/// candidates for a vector: drop halves, quarters, single elements (front-loaded, bounded)
pub fn shrink_vec<T: Clone>(v: &[T]) -> Vec<Vec<T>> {
    let n = v.len();
    let mut out = vec![];
    if n == 0 {
        return out;
    }
    let mut chunk = n / 2;
    while chunk >= 1 {
        let mut i = 0;
        while i < n {
            let mut c = Vec::with_capacity(n);
            c.extend_from_slice(&v[..i]);
            if i + chunk < n {
                c.extend_from_slice(&v[i + chunk..]);
            }
            out.push(c);
            i += chunk;
            if out.len() > 400 {
                return out;
            }
        }
        if chunk == 1 {
            break;
        }
        chunk /= 2;
    }
    out
}

pub mod hexbytes {
    use serde::{Deserialize, Deserializer, Serializer};
    pub fn serialize<S: Serializer>(b: &Vec<u8>, s: S) -> Result<S::Ok, S::Error> {
        let mut o = String::with_capacity(b.len() * 2);
        for x in b {
            o.push_str(&format!("{:02x}", x));
        }
        s.serialize_str(&o)
    }
    pub fn deserialize<'de, D: Deserializer<'de>>(d: D) -> Result<Vec<u8>, D::Error> {
        let s = String::deserialize(d)?;
        let b = s.as_bytes();
        let mut v = Vec::with_capacity(b.len() / 2);
        let hv = |c: u8| -> u8 {
            match c {
                b'0'..=b'9' => c - b'0',
                b'a'..=b'f' => c - b'a' + 10,
                b'A'..=b'F' => c - b'A' + 10,
                _ => 0,
            }
        };
        for p in b.chunks(2) {
            if p.len() == 2 {
                v.push(hv(p[0]) << 4 | hv(p[1]));
            }
        }
        Ok(v)
    }
}
