//! plugin configurations used by the pipeline checks

use crate::rng::Rng;

pub fn file_transfer_cfg(keep_flda: bool) -> String {
    format!(r#"{{"name":"FileTransfer","enabled":true,"allowSave":false,"keepFLDA":{}}}"#, keep_flda)
}

pub fn rewrite_cfg() -> String {
    r#"{"name":"Rewrite","enabled":true,"rewrites":[{"name":"SYS/JOUR timestamp","filter":{"apid":"SYS","ctid":"JOUR"},"payloadRegex":"^.*? .*? (?<timeStamp>\\d+\\.\\d+) (?<text>.*)$","rewrite":{"timeStamp":"function(m,msg){ if (!m) {return undefined; } return Math.round(Number(m.groups?.['timeStamp']) * 10000)}","payloadText":"function(m,msg){ if (!m) {return undefined; } return m.groups?.['text']}"}},{"name":"app1","filter":{"apid":"APP1"},"payloadRegex":"^msg (?<timeStamp>\\d+) (?<text>.*)$","rewrite":{"payloadText":"function(m,msg){ if (!m) {return undefined; } return m.groups?.['text']}"}}]}"#.to_string()
}

/// plugins that need no description files
pub fn gen_light_plugins(rng: &mut Rng) -> Vec<String> {
    let mut v = vec![];
    if rng.bool() {
        v.push(file_transfer_cfg(rng.bool()));
    }
    if rng.bool() || v.is_empty() {
        v.push(rewrite_cfg());
    }
    if rng.bool() {
        v.reverse();
    }
    v
}
