//! E2 `worldsim`: discrete-event simulation of ECUs, transport and recorder. Produces the
//! recorded message sequence plus ground truth per message.

use crate::rng::Rng;
use adlt::dlt::{DltChar4, DltExtendedHeader, DltMessage, DltStandardHeader};
use serde::{Deserialize, Serialize};
use std::collections::BinaryHeap;

pub const K_LOG: u8 = 0;
pub const K_CTRL_REQ: u8 = 1;
pub const K_SWVERS: u8 = 2;
pub const K_CTRL_RESP: u8 = 3;
pub const K_NONVERB: u8 = 4;
pub const K_NOEXT: u8 = 5;

pub const F_DUP: u8 = 1;
pub const F_REORDER: u8 = 2;
pub const F_TS_CORRUPT: u8 = 4;
pub const F_SPIKE: u8 = 8;
pub const F_AFTER_RESUME: u8 = 16;
/// K_LOG only: the text is padded so that the message is (nearly) of maximum size (len 65520..65535)
pub const F_HUGE: u8 = 32;

#[derive(Clone, Debug, PartialEq, Eq, Serialize, Deserialize)]
pub struct TMsg {
    pub ecu: u8,
    pub boot: u16,
    pub rx_us: u64,
    pub ts: u32,
    pub has_ts: bool,
    pub kind: u8,
    pub app: u8,
    pub mcnt: u8,
    pub n: u32,
    pub flags: u8,
}

pub fn ecu_name(e: u8) -> [u8; 4] {
    match e {
        0 => *b"ECU0",
        1 => *b"ECU1",
        2 => *b"E2\0\0",
        3 => *b"ECU3",
        x => [b'X', b'0' + (x % 10), 0, 0],
    }
}
pub const APIDS: [&[u8; 4]; 6] = [b"APP1", b"APP2", b"SYS\0", b"DA1\0", b"LONG", b"A\0\0\0"];
pub const CTIDS: [&[u8; 4]; 6] = [b"CTX1", b"CTX2", b"JOUR", b"DC1\0", b"C\0\0\0", b"MAIN"];

fn verbose_string_payload(s: &str) -> Vec<u8> {
    let mut p = vec![];
    p.extend_from_slice(&0x0000_0200u32.to_le_bytes()); // STRG, ASCII
    p.extend_from_slice(&((s.len() + 1) as u16).to_le_bytes());
    p.extend_from_slice(s.as_bytes());
    p.push(0);
    p
}

impl TMsg {
    pub fn payload_text(&self) -> String {
        let mut s = format!("msg {} of ecu {} boot {} app {}", self.n, self.ecu, self.boot, self.app);
        if self.flags & F_HUGE != 0 && self.kind == K_LOG {
            let hdr = 4 + 4 + if self.has_ts { 4 } else { 0 } + 10 + 4 + 2 + 1;
            let target = 65_535 - (self.n % 16) as usize;
            while s.len() < target - hdr {
                s.push('x');
            }
        }
        s
    }
    pub fn to_dlt(&self, index: u32) -> DltMessage {
        let mut htyp: u8 = 0x20 | 0x04; // version 1, with ecu id
        if self.has_ts {
            htyp |= 0x10;
        }
        let (ext, payload): (Option<DltExtendedHeader>, Vec<u8>) = match self.kind {
            K_LOG => (
                Some(DltExtendedHeader {
                    verb_mstp_mtin: 0x01 | ((1 + (self.app % 6)) << 4), // verbose log, level by app
                    noar: 1,
                    apid: DltChar4::from_buf(APIDS[(self.app % 6) as usize]),
                    ctid: DltChar4::from_buf(CTIDS[((self.app / 2) % 6) as usize]),
                }),
                verbose_string_payload(&self.payload_text()),
            ),
            K_CTRL_REQ => (
                Some(DltExtendedHeader {
                    verb_mstp_mtin: (3 << 1) | (1 << 4),
                    noar: 0,
                    apid: DltChar4::from_buf(b"DA1\0"),
                    ctid: DltChar4::from_buf(b"DC1\0"),
                }),
                {
                    let mut p = vec![];
                    p.extend_from_slice(&(0x13u32).to_le_bytes());
                    p
                },
            ),
            K_SWVERS => (
                Some(DltExtendedHeader {
                    verb_mstp_mtin: (3 << 1) | (2 << 4),
                    noar: 0,
                    apid: DltChar4::from_buf(b"DA1\0"),
                    ctid: DltChar4::from_buf(b"DC1\0"),
                }),
                {
                    let v = format!("SW {}.{}", self.ecu, self.boot);
                    let mut p = vec![];
                    p.extend_from_slice(&(19u32).to_le_bytes());
                    p.push(0);
                    p.extend_from_slice(&(v.len() as u32).to_le_bytes());
                    p.extend_from_slice(v.as_bytes());
                    p
                },
            ),
            K_CTRL_RESP => (
                Some(DltExtendedHeader {
                    verb_mstp_mtin: (3 << 1) | (2 << 4),
                    noar: 0,
                    apid: DltChar4::from_buf(b"DA1\0"),
                    ctid: DltChar4::from_buf(b"DC1\0"),
                }),
                {
                    let mut p = vec![];
                    p.extend_from_slice(&(0xF02u32).to_le_bytes());
                    p.push(0);
                    p.push(2);
                    p.extend_from_slice(b"conn");
                    p
                },
            ),
            K_NONVERB => (
                Some(DltExtendedHeader {
                    verb_mstp_mtin: 4 << 4, // non-verbose log info
                    noar: 0,
                    apid: DltChar4::from_buf(APIDS[(self.app % 6) as usize]),
                    ctid: DltChar4::from_buf(CTIDS[((self.app / 2) % 6) as usize]),
                }),
                {
                    let mut p = vec![];
                    p.extend_from_slice(&(800 + self.app as u32).to_le_bytes());
                    p.extend_from_slice(&self.n.to_le_bytes());
                    p
                },
            ),
            _ => (None, self.n.to_le_bytes().to_vec()),
        };
        if ext.is_some() {
            htyp |= 0x01;
        }
        let len = 4 + 4 + if self.has_ts { 4 } else { 0 } + if ext.is_some() { 10 } else { 0 } + payload.len();
        DltMessage {
            index,
            reception_time_us: self.rx_us,
            ecu: DltChar4::from_buf(&ecu_name(self.ecu)),
            timestamp_dms: if self.has_ts { self.ts } else { 0 },
            standard_header: DltStandardHeader {
                htyp,
                mcnt: self.mcnt,
                len: len as u16,
            },
            extended_header: ext,
            payload,
            payload_text: None,
            lifecycle: 0,
        }
    }
}

pub fn to_dlts(trace: &[TMsg], start_index: u32) -> Vec<DltMessage> {
    trace
        .iter()
        .enumerate()
        .map(|(i, m)| m.to_dlt(start_index + i as u32))
        .collect()
}

/// serialise a trace as DLT storage format bytes
pub fn to_bytes(trace: &[TMsg]) -> Vec<u8> {
    let mut v = vec![];
    for (i, m) in trace.iter().enumerate() {
        m.to_dlt(i as u32).to_write(&mut v).unwrap();
    }
    v
}

#[derive(Clone, Debug, Serialize, Deserialize, Default)]
pub struct WorldKnobs {
    pub n_ecus: usize,
    pub max_boots: usize,
    pub max_msgs_per_boot: usize,
    pub f_delay_spike: bool,
    pub f_drop: bool,
    pub f_dup: bool,
    pub f_reorder: bool,
    pub f_ts_corrupt: bool,
    pub f_clock_jump: bool,
    pub f_coarse_clock: bool,
    pub f_suspend: bool,
    pub f_ctrl_req: bool,
    pub f_connect_late: bool,
    pub f_no_ts_ecu: bool,
}

impl WorldKnobs {
    pub fn gen(rng: &mut Rng, max_msgs: usize) -> WorldKnobs {
        let n_ecus = rng.weighted(&[40, 35, 15, 10]) + 1;
        let max_boots = rng.weighted(&[20, 30, 25, 15, 5, 5]) + 1;
        let per = std::cmp::max(1, max_msgs / (n_ecus * max_boots));
        WorldKnobs {
            n_ecus,
            max_boots,
            max_msgs_per_boot: per,
            f_delay_spike: rng.chance(1, 3),
            f_drop: rng.chance(1, 4),
            f_dup: rng.chance(1, 4),
            f_reorder: rng.chance(1, 5),
            f_ts_corrupt: rng.chance(1, 4),
            f_clock_jump: rng.chance(1, 6),
            f_coarse_clock: rng.chance(1, 5),
            f_suspend: rng.chance(1, 4),
            f_ctrl_req: rng.chance(1, 3),
            f_connect_late: rng.chance(1, 3),
            f_no_ts_ecu: rng.chance(1, 10),
        }
    }
    pub fn fault_names(&self) -> Vec<&'static str> {
        let mut v = vec![];
        if self.f_delay_spike { v.push("delay_spike"); }
        if self.f_drop { v.push("drop"); }
        if self.f_dup { v.push("duplicate"); }
        if self.f_reorder { v.push("reorder"); }
        if self.f_ts_corrupt { v.push("timestamp_corruption"); }
        if self.f_clock_jump { v.push("recorder_clock_jump"); }
        if self.f_coarse_clock { v.push("coarse_recorder_clock"); }
        if self.f_suspend { v.push("suspend_resume"); }
        if self.f_ctrl_req { v.push("control_request"); }
        if self.f_connect_late { v.push("logger_connected_late"); }
        if self.f_no_ts_ecu { v.push("ecu_without_timestamps"); }
        v
    }
}

#[derive(Default, Debug, Clone)]
pub struct WorldStats {
    pub fired: Vec<(&'static str, u64)>,
    pub span_us: u64,
    pub reboots: u64,
}

#[derive(PartialEq, Eq)]
struct Ev {
    at: u64,
    seq: u64,
    m: TMsg,
}
impl Ord for Ev {
    fn cmp(&self, o: &Self) -> std::cmp::Ordering {
        (o.at, o.seq).cmp(&(self.at, self.seq))
    }
}
impl PartialOrd for Ev {
    fn partial_cmp(&self, o: &Self) -> Option<std::cmp::Ordering> {
        Some(self.cmp(o))
    }
}

pub const WALL_BASE_US: u64 = 1_600_000_000_000_000; // 2020-09-13

/// general world: all fault kinds enabled by the knobs may fire
pub fn gen_world(rng: &mut Rng, k: &WorldKnobs) -> (Vec<TMsg>, WorldStats) {
    let mut st = WorldStats::default();
    let mut cnt: std::collections::BTreeMap<&'static str, u64> = Default::default();
    let mut heap: BinaryHeap<Ev> = BinaryHeap::new();
    let mut seq = 0u64;
    let mut n = 0u32;
    let base = WALL_BASE_US + rng.below(1_000_000_000);
    let mut max_wall = base;
    for e in 0..k.n_ecus {
        let no_ts = k.f_no_ts_ecu && e == k.n_ecus - 1;
        let nboots = rng.urange(1, k.max_boots);
        let mut wall = base + rng.below(30_000_000); // power-on of the first boot
        let mut last_arrival = 0u64;
        let mut mcnt = rng.u8();
        for b in 0..nboots {
            if b > 0 {
                st.reboots += 1;
            }
            let nm = rng.urange(1, k.max_msgs_per_boot);
            let duration_us: u64 = match rng.below(5) {
                0 => rng.range(1_000, 100_000),
                1 => rng.range(100_000, 5_000_000),
                2 => rng.range(5_000_000, 70_000_000),
                3 => rng.range(70_000_000, 200_000_000),
                _ => rng.range(10_000_000, 3_600_000_000),
            };
            let first_uptime = match rng.below(4) {
                0 => 0,
                1 => rng.range(0, 100_000),
                _ => rng.range(0, std::cmp::min(duration_us, 8_000_000)),
            };
            let mut ups: Vec<u64> = (0..nm)
                .map(|_| first_uptime + rng.below(duration_us.saturating_sub(first_uptime) + 1))
                .collect();
            ups.sort();
            ups[0] = first_uptime;
            // transport for this boot
            let base_delay: u64 = match rng.below(5) {
                0 => 0,
                1 => rng.range(100, 20_000),
                2 => rng.range(20_000, 2_000_000),
                3 => rng.range(2_000_000, 20_000_000),
                _ => rng.range(20_000_000, 90_000_000),
            };
            let jitter: u64 = *rng.pick(&[0u64, 0, 1_000, 50_000, 2_000_000]);
            let connect_at: u64 = if k.f_connect_late && rng.chance(1, 2) {
                cnt.entry("logger_connected_late").and_modify(|c| *c += 1).or_insert(1);
                rng.range(0, std::cmp::min(duration_us, 120_000_000))
            } else {
                0
            };
            // suspend/resume inside this boot
            let suspend: Option<(u64, u64)> = if k.f_suspend && rng.chance(1, 2) {
                Some((rng.below(duration_us + 1), rng.range(11_000_000, 400_000_000)))
            } else {
                None
            };
            let mut boot_end_wall = wall;
            for up in ups.iter() {
                let mut flags = 0u8;
                let mut emit_wall = wall + up;
                if let Some((su, sd)) = suspend {
                    if *up >= su {
                        emit_wall += sd;
                        flags |= F_AFTER_RESUME;
                        cnt.entry("suspend_resume").and_modify(|c| *c += 1).or_insert(1);
                    }
                }
                boot_end_wall = std::cmp::max(boot_end_wall, emit_wall);
                let mut delay = base_delay + if jitter > 0 { rng.below(jitter) } else { 0 };
                if *up < connect_at {
                    delay = std::cmp::max(delay, connect_at - up);
                }
                if k.f_delay_spike && rng.chance(1, 12) {
                    delay += rng.range(1_000_000, 100_000_000);
                    flags |= F_SPIKE;
                    cnt.entry("delay_spike").and_modify(|c| *c += 1).or_insert(1);
                }
                if k.f_drop && rng.chance(1, 10) {
                    cnt.entry("drop").and_modify(|c| *c += 1).or_insert(1);
                    mcnt = mcnt.wrapping_add(1);
                    continue;
                }
                // per-ECU FIFO transport
                let mut arrival = std::cmp::max(last_arrival, emit_wall + delay);
                if k.f_reorder && rng.chance(1, 10) && arrival > 2_000 {
                    arrival -= rng.range(1, 2_000);
                    flags |= F_REORDER;
                    cnt.entry("reorder").and_modify(|c| *c += 1).or_insert(1);
                } else {
                    last_arrival = arrival;
                }
                let mut ts = (*up / 100) as u32;
                let mut has_ts = !no_ts;
                if no_ts {
                    cnt.entry("ecu_without_timestamps").and_modify(|c| *c += 1).or_insert(1);
                }
                if k.f_ts_corrupt && rng.chance(1, 12) {
                    flags |= F_TS_CORRUPT;
                    cnt.entry("timestamp_corruption").and_modify(|c| *c += 1).or_insert(1);
                    match rng.below(5) {
                        0 => ts = 0,
                        1 => ts = u32::MAX,
                        2 => ts = ts.saturating_add(rng.range(1_000_000, 400_000_000) as u32),
                        3 => has_ts = false,
                        _ => ts = rng.u32(),
                    }
                }
                let kind = match rng.weighted(&[70, 0, 4, 4, 14, 8]) {
                    0 => K_LOG,
                    2 => K_SWVERS,
                    3 => K_CTRL_RESP,
                    4 => K_NONVERB,
                    _ => K_NOEXT,
                };
                n += 1;
                mcnt = mcnt.wrapping_add(1);
                let m = TMsg {
                    ecu: e as u8,
                    boot: b as u16,
                    rx_us: arrival,
                    ts,
                    has_ts,
                    kind,
                    app: rng.u8() % 12,
                    mcnt,
                    n,
                    flags,
                };
                seq += 1;
                heap.push(Ev { at: arrival, seq, m: m.clone() });
                if k.f_dup && rng.chance(1, 12) {
                    let mut d = m.clone();
                    d.flags |= F_DUP;
                    d.rx_us = arrival + rng.below(3) * 1000;
                    seq += 1;
                    heap.push(Ev { at: d.rx_us, seq, m: d });
                    cnt.entry("duplicate").and_modify(|c| *c += 1).or_insert(1);
                }
                if k.f_ctrl_req && rng.chance(1, 15) {
                    // the recorder injects a control request, stamped in its own clock domain
                    n += 1;
                    let c = TMsg {
                        ecu: e as u8,
                        boot: b as u16,
                        rx_us: arrival,
                        ts: (rng.below(1_000_000_000)) as u32,
                        has_ts: true,
                        kind: K_CTRL_REQ,
                        app: 0,
                        mcnt: 0,
                        n,
                        flags: 0,
                    };
                    seq += 1;
                    heap.push(Ev { at: arrival, seq, m: c });
                    cnt.entry("control_request").and_modify(|c| *c += 1).or_insert(1);
                }
                max_wall = std::cmp::max(max_wall, arrival);
            }
            // next boot: off time >= 1 ms
            let off: u64 = match rng.below(4) {
                0 => rng.range(1_000, 100_000),
                1 => rng.range(100_000, 5_000_000),
                2 => rng.range(5_000_000, 120_000_000),
                _ => rng.range(1_000, 1_000_000_000),
            };
            wall = boot_end_wall + off;
        }
    }
    // recorder: pops arrivals in time order, stamps with its own (possibly faulty) clock
    let mut out: Vec<TMsg> = Vec::with_capacity(heap.len());
    let total = heap.len();
    let jump_at = if k.f_clock_jump && total > 2 { Some(rng.usize(total)) } else { None };
    let jump: i64 = if rng.bool() {
        -(rng.range(1_000_000, 200_000_000) as i64)
    } else {
        rng.range(1_000_000, 200_000_000) as i64
    };
    let gran: u64 = if k.f_coarse_clock { *rng.pick(&[1_000u64, 1_000_000]) } else { 1 };
    let mut i = 0usize;
    while let Some(ev) = heap.pop() {
        let mut m = ev.m;
        let mut rx = m.rx_us as i64;
        if let Some(j) = jump_at {
            if i >= j {
                rx += jump;
                if i == j {
                    cnt.entry("recorder_clock_jump").and_modify(|c| *c += 1).or_insert(1);
                }
            }
        }
        let mut rx = std::cmp::max(rx, 120_000_000) as u64;
        if gran > 1 {
            rx -= rx % gran;
            cnt.entry("coarse_recorder_clock").and_modify(|c| *c += 1).or_insert(1);
        }
        m.rx_us = rx;
        out.push(m);
        i += 1;
    }
    st.span_us = max_wall - base;
    st.fired = cnt.into_iter().collect();
    (out, st)
}

// ---------------------------------------------------------------------------------------------
// clean class for C08

#[derive(Clone, Debug, Serialize, Deserialize)]
pub struct CleanBoot {
    pub power_on_us: u64,
    pub delay_us: u64,
    /// uptimes in dms of the messages, in stream order (arbitrary permutation)
    pub uptimes_dms: Vec<u32>,
}

#[derive(Clone, Debug, Serialize, Deserialize)]
pub struct CleanWorld {
    pub ecus: Vec<Vec<CleanBoot>>,
    /// interleaving of the ECUs: sequence of ecu indices, one per message
    pub interleave: Vec<u8>,
}

impl CleanWorld {
    /// the recorded trace, ground truth in (ecu, boot)
    pub fn trace(&self) -> Vec<TMsg> {
        let mut per: Vec<Vec<TMsg>> = vec![];
        let mut n = 0u32;
        for (e, boots) in self.ecus.iter().enumerate() {
            let mut v = vec![];
            for (b, boot) in boots.iter().enumerate() {
                for (i, up) in boot.uptimes_dms.iter().enumerate() {
                    n += 1;
                    v.push(TMsg {
                        ecu: e as u8,
                        boot: b as u16,
                        rx_us: boot.power_on_us + *up as u64 * 100 + boot.delay_us,
                        ts: *up,
                        has_ts: true,
                        kind: if i % 5 == 4 { K_NONVERB } else { K_LOG },
                        app: (i % 12) as u8,
                        mcnt: i as u8,
                        n,
                        flags: 0,
                    });
                }
            }
            per.push(v);
        }
        let mut idx = vec![0usize; per.len()];
        let mut out = vec![];
        for e in self.interleave.iter() {
            let e = *e as usize;
            if e < per.len() && idx[e] < per[e].len() {
                out.push(per[e][idx[e]].clone());
                idx[e] += 1;
            }
        }
        for e in 0..per.len() {
            while idx[e] < per[e].len() {
                out.push(per[e][idx[e]].clone());
                idx[e] += 1;
            }
        }
        out
    }
}

pub fn gen_clean_world(rng: &mut Rng, family_rate_pct: u64) -> CleanWorld {
    let n_ecus = rng.weighted(&[45, 35, 15, 5]) + 1;
    let mut ecus = vec![];
    let mut total = 0usize;
    for _e in 0..n_ecus {
        let nboots = rng.weighted(&[15, 30, 25, 15, 10, 5]) + 1;
        let mut boots: Vec<CleanBoot> = vec![];
        // now and then a recorder without a clock: the recording starts at the epoch (cf. tests/ex_1970_1_1.dlt),
        // so that boot time + delay can be 0 and a timestamp can equal its reception time
        let mut wall = if rng.chance(1, 12) { *rng.pick(&[0u64, 0, 1, 100, 5_000_000]) } else { WALL_BASE_US + rng.below(100_000_000) };
        for _b in 0..nboots {
            let nm = match rng.below(4) {
                0 => rng.urange(1, 2),
                1 => rng.urange(3, 8),
                _ => rng.urange(3, 40),
            };
            let dur_dms: u32 = match rng.below(5) {
                0 => rng.range(0, 1_000) as u32,
                1 => rng.range(1_000, 150_000) as u32,
                2 => rng.range(150_000, 1_200_000) as u32,
                3 => rng.range(100_000, 700_000) as u32,
                _ => rng.range(0, 30_000_000) as u32,
            };
            let mut ups: Vec<u32> = (0..nm).map(|_| rng.below(dur_dms as u64 + 1) as u32).collect();
            if rng.chance(1, 3) {
                ups[0] = 0;
            }
            // optional reception gap > 10 s inside the boot (resume flagging allowed)
            if rng.chance(1, 6) {
                let gap = rng.range(100_001, 3_000_000) as u32;
                let cut = rng.below(dur_dms as u64 + 1) as u32;
                for u in ups.iter_mut() {
                    if *u > cut {
                        *u = u.saturating_add(gap);
                    }
                }
            }
            // arbitrary order within the boot
            match rng.below(3) {
                0 => ups.sort(),
                1 => rng.shuffle(&mut ups),
                _ => {
                    ups.sort();
                    ups.reverse();
                }
            }
            let max_up = *ups.iter().max().unwrap() as u64 * 100;
            let delay: u64 = match rng.below(5) {
                0 => 0,
                1 => rng.range(1, 50_000),
                2 => rng.range(50_000, 5_000_000),
                3 => rng.range(5_000_000, 30_000_000),
                _ => rng.range(30_000_000, 90_000_000),
            };
            // physical sequencing: power-on after the previous boot ended (+ off time >= 1 ms) and
            // all receptions of this boot after all receptions of the previous boot
            let mut power_on = wall;
            if let Some(prev) = boots.last() {
                let prev_max_up = *prev.uptimes_dms.iter().max().unwrap() as u64 * 100;
                let prev_last_rx = prev.power_on_us + prev_max_up + prev.delay_us;
                let min_up = *ups.iter().min().unwrap() as u64 * 100;
                // first reception of this boot = power_on + min_up + delay must be > prev_last_rx
                let need = (prev_last_rx + 1).saturating_sub(min_up + delay);
                power_on = std::cmp::max(power_on, need);
                let in_family = rng.below(100) < family_rate_pct;
                if !in_family {
                    // keep the calculated start of this boot after the calculated end of the previous one
                    let prev_calc_end = prev.power_on_us + prev.delay_us + prev_max_up;
                    let need2 = (prev_calc_end + 1).saturating_sub(delay);
                    power_on = std::cmp::max(power_on, need2);
                }
            }
            total += ups.len();
            boots.push(CleanBoot {
                power_on_us: power_on,
                delay_us: delay,
                uptimes_dms: ups,
            });
            let off = match rng.below(4) {
                0 => 1_000,
                1 => rng.range(1_000, 1_000_000),
                2 => rng.range(1_000_000, 100_000_000),
                _ => rng.range(1_000, 10_000_000_000),
            };
            wall = power_on + max_up + off;
        }
        ecus.push(boots);
    }
    let mut interleave: Vec<u8> = vec![];
    let mode = rng.below(3);
    for _ in 0..total {
        interleave.push(match mode {
            0 => rng.usize(n_ecus) as u8,
            1 => (interleave.len() % n_ecus) as u8,
            _ => {
                if rng.chance(1, 10) {
                    rng.usize(n_ecus) as u8
                } else {
                    *interleave.last().unwrap_or(&0)
                }
            }
        });
    }
    CleanWorld { ecus, interleave }
}
