//! C09 — Merging message sources loses nothing and keeps per-source order.
//! Sources are the recordings of 0-6 simulated recorders (clock offsets, coarse clocks -> ties,
//! jumps -> unordered, recorders that captured nothing), pulled lazily through the real
//! DltMessageIterator over LowMarkBufReader over a scripted short-read source.

use crate::fw::{shrink_vec, Check, Ctx, Tier, Violation};
use crate::rng::Rng;
use crate::scripted::{gen_sched, Sched, ScriptedSource};
use crate::viol;
use crate::world::*;
use adlt::dlt::{DltMessage, DLT_MSG_PARSER_LOW_MARK};
use adlt::utils::sorting_multi_readeriterator::{SequentialMultiIterator, SortingMultiReaderIterator};
use adlt::utils::{DltMessageIterator, LowMarkBufReader};
use serde::{Deserialize, Serialize};
use std::sync::Arc;

#[derive(Clone, Debug, Serialize, Deserialize)]
pub struct Source {
    pub msgs: Vec<TMsg>,
    /// None = in-memory iterator, Some = parsed lazily from bytes through this read schedule
    pub sched: Option<Sched>,
}

#[derive(Clone, Debug, Serialize, Deserialize)]
pub struct Case {
    pub sources: Vec<Source>,
    pub start_index: u32,
    /// 0 sorting new, 1 sorting new_or_single_it, 2 sequential new, 3 sequential new_or_single_it
    pub mode: u8,
    /// how exact the size hint of the iterator handing over the sources is (sequential modes):
    /// 0 exact, 1 (0, Some(n)), 2 (min(1,n), Some(n)), 3 (min(1,n), None), 4 (0, None)
    #[serde(default)]
    pub provider_hint: u8,
    /// sequential modes: this many additional empty sources in a row before the last source
    #[serde(default)]
    pub empty_run: u32,
}

/// hands over the sources lazily with a legal but possibly inexact size hint (like filter/chain/peekable adaptors do)
struct Provider<'a> {
    inner: std::vec::IntoIter<Box<dyn Iterator<Item = DltMessage> + 'a>>,
    hint: u8,
}
impl<'a> Iterator for Provider<'a> {
    type Item = Box<dyn Iterator<Item = DltMessage> + 'a>;
    fn next(&mut self) -> Option<Self::Item> {
        self.inner.next()
    }
    fn size_hint(&self) -> (usize, Option<usize>) {
        let n = self.inner.len();
        match self.hint {
            0 => (n, Some(n)),
            1 => (0, Some(n)),
            2 => (std::cmp::min(1, n), Some(n)),
            3 => (std::cmp::min(1, n), None),
            _ => (0, None),
        }
    }
}

fn make_iter<'a>(s: &Source, src_no: usize, counts: &mut Vec<Arc<crate::scripted::SrcCounts>>) -> Box<dyn Iterator<Item = DltMessage> + 'a> {
    // tag the source number into the message counter + payload so every message is attributable
    let tagged: Vec<TMsg> = s
        .msgs
        .iter()
        .enumerate()
        .map(|(i, m)| {
            let mut m = m.clone();
            m.n = ((src_no as u32) << 20) | i as u32;
            m.kind = K_NOEXT;
            m
        })
        .collect();
    match &s.sched {
        None => Box::new(to_dlts(&tagged, 1000).into_iter()),
        Some(sc) => {
            let bytes = to_bytes(&tagged);
            let src = ScriptedSource::new(Arc::new(bytes), sc.clone(), Arc::new(vec![]));
            counts.push(src.counts.clone());
            let rd = LowMarkBufReader::new(src, DLT_MSG_PARSER_LOW_MARK + 4096, DLT_MSG_PARSER_LOW_MARK);
            Box::new(DltMessageIterator::new(1000, rd))
        }
    }
}

fn tag_of(m: &DltMessage) -> (usize, usize) {
    let n = u32::from_le_bytes([m.payload[0], m.payload[1], m.payload[2], m.payload[3]]);
    ((n >> 20) as usize, (n & 0xfffff) as usize)
}

pub struct C09;
impl Check for C09 {
    type Case = Case;
    const ID: &'static str = "C09";
    fn runs(t: Tier) -> u64 {
        t.pick(200_000, 6_000_000)
    }
    fn generate(rng: &mut Rng, _tier: Tier, _idx: u64) -> Case {
        let ns = rng.weighted(&[6, 14, 25, 25, 15, 10, 5]);
        let mut sources = vec![];
        let base = WALL_BASE_US + rng.below(1_000_000);
        for _ in 0..ns {
            let n = match rng.below(5) {
                0 => 0,
                1 => rng.urange(1, 3),
                _ => rng.urange(1, 40),
            };
            // recorder clock: offset, granularity (ties), optional backward jump (unordered)
            let offset = rng.below(3_000_000);
            let gran = *rng.pick(&[1u64, 1, 1_000, 1_000_000]);
            let jump_at = if rng.chance(1, 5) && n > 1 { Some(rng.usize(n)) } else { None };
            let mode = rng.below(3); // increasing, equal, unordered
            let mut t = base + offset;
            let mut msgs = vec![];
            for i in 0..n {
                match mode {
                    0 => t += rng.below(500_000),
                    1 => {}
                    _ => t = base + rng.below(5_000_000),
                }
                if Some(i) == jump_at {
                    t = t.saturating_sub(rng.range(1, 3_000_000));
                }
                let rx = t - t % gran;
                msgs.push(TMsg { ecu: (sources.len() % 4) as u8, boot: 0, rx_us: rx, ts: (i * 10) as u32, has_ts: true, kind: K_NOEXT, app: 0, mcnt: i as u8, n: 0, flags: 0 });
            }
            let mut sched = if rng.chance(2, 3) { Some(gen_sched(rng)) } else { None };
            // a recorder with a far-off clock: values no file can carry, so only for in-memory sources
            if rng.chance(1, 12) {
                let far = *rng.pick(&[u64::MAX - WALL_BASE_US - 40_000_000, i64::MAX as u64 - WALL_BASE_US - 12_000_000, 8_210_000_000_000_000_000u64]);
                for m in msgs.iter_mut() {
                    m.rx_us += far;
                }
                sched = None;
            }
            sources.push(Source { msgs, sched });
        }
        let total: u32 = sources.iter().map(|s| s.msgs.len() as u32).sum();
        Case {
            sources,
            start_index: match rng.below(5) {
                0 => 0,
                1 => 1,
                2 => rng.u32() % 1_000_000,
                // the last message gets exactly the largest index
                3 => u32::MAX - total.saturating_sub(1),
                _ => u32::MAX - total - 1 - rng.below(3) as u32,
            },
            mode: rng.below(4) as u8,
            provider_hint: *rng.pick(&[0u8, 0, 1, 2, 2, 3, 4]),
            empty_run: if rng.chance(1, 1500) { *rng.pick(&[5_000u32, 50_000, 400_000]) } else { 0 },
        }
    }
    fn run(c: &Case, ctx: &mut Ctx) -> Result<(), Violation> {
        let total: usize = c.sources.iter().map(|s| s.msgs.len()).sum();
        if c.start_index as u64 + total as u64 > u32::MAX as u64 + 1 {
            return Ok(()); // the numbering would not be representable
        }
        if total > 0 && c.start_index as u64 + total as u64 == u32::MAX as u64 + 1 {
            ctx.probe("last_index_is_u32_max");
        }
        ctx.sig.u64(c.mode as u64);
        ctx.sig.u64(c.sources.len() as u64);
        for s in &c.sources {
            ctx.sig.u64(s.msgs.len() as u64);
            for m in s.msgs.iter().take(8) {
                ctx.sig.u64(m.rx_us);
            }
        }
        ctx.cfg("empty_source");
        ctx.cfg("tied_reception_times");
        ctx.cfg("unordered_source");
        ctx.cfg("short_reads");
        ctx.cfg("far_future_clock");
        if c.sources.iter().any(|s| s.msgs.iter().any(|m| m.rx_us > 8_000_000_000_000_000_000)) {
            ctx.fired("far_future_clock");
        }
        let mut all_ordered = true;
        for s in &c.sources {
            if s.msgs.is_empty() {
                ctx.fired("empty_source");
            }
            if s.msgs.windows(2).any(|w| w[0].rx_us == w[1].rx_us) {
                ctx.fired("tied_reception_times");
            }
            if s.msgs.windows(2).any(|w| w[0].rx_us > w[1].rx_us) {
                ctx.fired("unordered_source");
                all_ordered = false;
            }
        }
        let mut counts = vec![];
        let mut its: Vec<Box<dyn Iterator<Item = DltMessage>>> = c.sources.iter().enumerate().map(|(i, s)| make_iter(s, i, &mut counts)).collect();
        if c.empty_run > 0 && c.mode >= 2 {
            let at = its.len().saturating_sub(1);
            let tail = its.split_off(at);
            for _ in 0..c.empty_run {
                its.push(Box::new(std::iter::empty()));
            }
            its.extend(tail);
            ctx.probe("long_run_of_empty_sources");
        }
        let single = c.sources.len() == 1 && !(c.empty_run > 0 && c.mode >= 2);
        let mut provider_exactly_one = single;
        let out: Vec<DltMessage> = match c.mode {
            0 => SortingMultiReaderIterator::new(c.start_index, its).collect(),
            1 => SortingMultiReaderIterator::new_or_single_it(c.start_index, its).collect(),
            _ => {
                let prov = Provider { inner: its.into_iter(), hint: c.provider_hint };
                provider_exactly_one = prov.size_hint() == (1, Some(1));
                if c.provider_hint != 0 {
                    ctx.probe("inexact_provider_size_hint");
                }
                if c.mode == 2 {
                    SequentialMultiIterator::new(c.start_index, prov).collect()
                } else {
                    SequentialMultiIterator::new_or_single_it(c.start_index, prov).collect()
                }
            }
        };
        ctx.fired_n("short_reads", counts.iter().map(|c| c.get().1).sum());
        ctx.sim_time(total as u128);
        if out.len() != total {
            viol!("merge-count", "{} messages in {} sources, {} out", total, c.sources.len(), out.len());
        }
        // exactly once + per-source order
        let mut next = vec![0usize; c.sources.len()];
        for (p, m) in out.iter().enumerate() {
            let (s, i) = tag_of(m);
            if s >= next.len() {
                viol!("merge-foreign", "position {}: message of unknown source {}", p, s);
            }
            if i != next[s] {
                viol!("merge-source-order", "position {}: source {} delivered its message {} where {} was due (lost, duplicated or reordered)", p, s, i, next[s]);
            }
            next[s] += 1;
            let exp = &c.sources[s].msgs[i];
            if m.reception_time_us != exp.rx_us || m.timestamp_dms != exp.ts {
                viol!("merge-altered", "position {}: message changed", p);
            }
        }
        // numbering
        // the documented shortcut: exactly one source announced -> it is returned as is (start index ignored)
        let single_shortcut = (single && c.mode == 1) || (provider_exactly_one && c.mode == 3);
        for (p, m) in out.iter().enumerate() {
            let want = if single_shortcut { 1000 + p as u32 } else { c.start_index + p as u32 };
            if m.index != want {
                viol!("merge-index", "position {}: index {} but {} expected (start index {}, mode {})", p, m.index, want, c.start_index, c.mode);
            }
        }
        if c.mode <= 1 {
            if all_ordered && out.windows(2).any(|w| w[0].reception_time_us > w[1].reception_time_us) {
                viol!("merge-not-ordered", "all sources ordered by reception time but the merged stream is not");
            }
            ctx.probe("sorting_merge_runs");
        } else {
            // concatenation
            let mut p = 0;
            for (s, src) in c.sources.iter().enumerate() {
                for i in 0..src.msgs.len() {
                    if tag_of(&out[p]) != (s, i) {
                        viol!("chain-not-concatenation", "position {}: expected message {} of source {}", p, i, s);
                    }
                    p += 1;
                }
            }
            ctx.probe("sequential_chain_runs");
        }
        ctx.event_u64(out.len() as u64);
        ctx.nontrivial = c.sources.len() > 1 && total > 1;
        Ok(())
    }
    fn shrink(c: &Case) -> Vec<Case> {
        let mut out = vec![];
        for s in shrink_vec(&c.sources) {
            out.push(Case { sources: s, ..c.clone() });
        }
        for (i, s) in c.sources.iter().enumerate() {
            for m in shrink_vec(&s.msgs) {
                let mut ss = c.sources.clone();
                ss[i].msgs = m;
                out.push(Case { sources: ss, ..c.clone() });
            }
            if s.sched.is_some() {
                let mut ss = c.sources.clone();
                ss[i].sched = None;
                out.push(Case { sources: ss, ..c.clone() });
            }
        }
        if c.start_index != 0 {
            out.push(Case { start_index: 0, ..c.clone() });
        }
        if c.empty_run > 0 {
            out.push(Case { empty_run: 0, ..c.clone() });
            out.push(Case { empty_run: c.empty_run / 2, ..c.clone() });
        }
        out
    }
    fn rule() -> &'static str {
        "one run = 0-6 sources (recordings of simulated recorders: increasing, tied via coarse clocks, unordered via clock jumps, far-future clocks up to u64::MAX, empty) of 0-40 messages each, two thirds of them pulled lazily as DltMessageIterator over LowMarkBufReader over a scripted short-read source, merged by one of the four constructors (sorting/sequential x new/new_or_single_it; the sequential ones receive the sources from a lazy provider whose size hint is exact or one of four legal inexact shapes) with start index in {0, 1, random, near u32::MAX, last index = u32::MAX}; rarely 5 000-400 000 additional empty sources in a row; every output message is attributed to (source, position) through its payload; non-trivial = more than one source and more than one message; distinct = hash of (mode, per-source lengths and first reception times)"
    }
    fn assumptions() -> Vec<&'static str> {
        vec![
            "weakest fit for this technique: no schedule or clock inside the merge itself; what the simulation contributes is the recorder world (ties, jumps, empty recordings) and lazily pulled stream sources under short reads",
            "for the *_or_single_it single-source shortcut the documented 'start index ignored' behaviour is the expectation",
        ]
    }
    fn real_components() -> Vec<&'static str> {
        vec!["adlt::utils::sorting_multi_readeriterator::{SortingMultiReaderIterator, SequentialMultiIterator}", "adlt::utils::DltMessageIterator", "adlt::utils::LowMarkBufReader"]
    }
    fn stub_components() -> Vec<&'static str> {
        vec!["recorders (generator)", "underlying readers (ScriptedSource)"]
    }
    fn required_reach() -> Vec<&'static str> {
        vec!["empty_source", "tied_reception_times", "unordered_source", "short_reads", "far_future_clock", "sorting_merge_runs", "sequential_chain_runs", "inexact_provider_size_hint"]
    }
}
