//! C16 — Remote streams deliver exactly the requested window of the filtered log
//! (i) library level: StreamContext + process_stream_new_msgs under arbitrary arrival batchings
//! (ii) server level (E5): streams/queries/window changes/searches/lookups against a model

use crate::fw::{shrink_vec, Check, Ctx, Tier, Violation};
use crate::remotesim::*;
use crate::rng::Rng;
use crate::sh::{SchedCfg, SchedKind};
use crate::viol;
use crate::world::*;
use adlt::dlt::DltMessage;
use adlt::utils::remote_utils::{match_filters, process_stream_new_msgs, StreamContext};
use serde::{Deserialize, Serialize};
use std::collections::BTreeMap;

/// restricted filter with an independent reference predicate
#[derive(Clone, Debug, Serialize, Deserialize)]
pub struct RFilter {
    pub kind: u8, // 0 pos, 1 neg, 3 event
    pub enabled: bool,
    pub not: bool,
    pub ecu: Option<String>,
    pub apid: Option<String>,
    pub ctid: Option<String>,
    pub level_max: Option<u8>,
    pub level_min: Option<u8>,
    pub payload: Option<(String, bool)>,
}

fn id4(s: &str) -> [u8; 4] {
    let mut x = [0u8; 4];
    for (i, b) in s.bytes().take(4).enumerate() {
        x[i] = b;
    }
    x
}

impl RFilter {
    pub fn json(&self) -> String {
        let mut m = serde_json::Map::new();
        m.insert("type".into(), self.kind.into());
        if !self.enabled {
            m.insert("enabled".into(), false.into());
        }
        if self.not {
            m.insert("not".into(), true.into());
        }
        if let Some(e) = &self.ecu {
            m.insert("ecu".into(), e.clone().into());
            m.insert("ecuIsRegex".into(), false.into());
        }
        if let Some(e) = &self.apid {
            m.insert("apid".into(), e.clone().into());
            m.insert("apidIsRegex".into(), false.into());
        }
        if let Some(e) = &self.ctid {
            m.insert("ctid".into(), e.clone().into());
            m.insert("ctidIsRegex".into(), false.into());
        }
        if let Some(l) = self.level_max {
            m.insert("logLevelMax".into(), l.into());
        }
        if let Some(l) = self.level_min {
            m.insert("logLevelMin".into(), l.into());
        }
        if let Some((p, ic)) = &self.payload {
            m.insert("payload".into(), p.clone().into());
            if *ic {
                m.insert("ignoreCasePayload".into(), true.into());
            }
        }
        serde_json::Value::Object(m).to_string()
    }
    /// independent reference predicate (conjunction of the criteria, inverted when `not`)
    pub fn matches(&self, m: &DltMessage, text: &str) -> bool {
        if !self.enabled {
            return false;
        }
        let mut ok = true;
        if let Some(e) = &self.ecu {
            ok &= m.ecu.as_buf() == &id4(e);
        }
        if let Some(a) = &self.apid {
            ok &= m.extended_header.as_ref().map(|x| x.apid.as_buf() == &id4(a)).unwrap_or(false);
        }
        if let Some(c) = &self.ctid {
            ok &= m.extended_header.as_ref().map(|x| x.ctid.as_buf() == &id4(c)).unwrap_or(false);
        }
        let lvl = m.extended_header.as_ref().and_then(|x| if (x.verb_mstp_mtin >> 1) & 7 == 0 { Some(x.verb_mstp_mtin >> 4) } else { None });
        if let Some(l) = self.level_max {
            ok &= lvl.map(|v| v <= l).unwrap_or(false);
        }
        if let Some(l) = self.level_min {
            ok &= lvl.map(|v| v >= l).unwrap_or(false);
        }
        if let Some((p, ic)) = &self.payload {
            ok &= if *ic { text.to_lowercase().contains(&p.to_lowercase()) } else { text.contains(p.as_str()) };
        }
        ok != self.not
    }
}

pub fn set_keeps(fs: &[RFilter], m: &DltMessage, text: &str) -> bool {
    let pos: Vec<&RFilter> = fs.iter().filter(|f| f.enabled && f.kind == 0).collect();
    let neg: Vec<&RFilter> = fs.iter().filter(|f| f.enabled && f.kind == 1).collect();
    let evt: Vec<&RFilter> = fs.iter().filter(|f| f.enabled && f.kind == 3).collect();
    (pos.is_empty() || pos.iter().any(|f| f.matches(m, text))) && !neg.iter().any(|f| f.matches(m, text)) && (evt.is_empty() || evt.iter().any(|f| f.matches(m, text)))
}

pub fn gen_rfilter(rng: &mut Rng) -> RFilter {
    let mut f = RFilter { kind: *rng.pick(&[0u8, 0, 0, 1, 1, 3]), enabled: rng.chance(7, 8), not: rng.chance(1, 5), ecu: None, apid: None, ctid: None, level_max: None, level_min: None, payload: None };
    for _ in 0..rng.urange(1, 2) {
        match rng.below(6) {
            0 => f.ecu = Some((*rng.pick(&["ECU0", "ECU1", "E2", "ECU3"])).to_string()),
            1 => f.apid = Some((*rng.pick(&["APP1", "APP2", "SYS", "DA1", "LONG", "A"])).to_string()),
            2 => f.ctid = Some((*rng.pick(&["CTX1", "CTX2", "JOUR", "DC1", "C", "MAIN"])).to_string()),
            3 => f.level_max = Some(1 + rng.below(6) as u8),
            4 => f.level_min = Some(1 + rng.below(6) as u8),
            _ => f.payload = Some(((*rng.pick(&["msg 1", "ecu 0", "boot 1", "app 3", "MSG", "Of Ecu", "of ecu 1 boot 0"])).to_string(), rng.bool())),
        }
    }
    f
}

fn filters_json(fs: &[RFilter]) -> String {
    format!("[{}]", fs.iter().map(|f| f.json()).collect::<Vec<_>>().join(","))
}

// ---------------------------------------------------------------------------------------------

#[derive(Clone, Debug, Serialize, Deserialize)]
pub struct StreamSpec {
    pub query: bool,
    pub filters: Vec<RFilter>,
    pub window: (usize, usize),
    pub binary: bool,
    /// window changes applied later (in order)
    pub changes: Vec<(usize, usize)>,
    /// paged search: (filters, start index, page size)
    pub search: Option<(Vec<RFilter>, usize, usize)>,
    /// index lookups
    pub lookups: Vec<u32>,
    /// time lookups: (message j, delta in ms) -> time_ms = calculated time of message j in ms + delta
    #[serde(default)]
    pub time_lookups: Vec<(usize, i32)>,
}

#[derive(Clone, Debug, Serialize, Deserialize)]
pub enum Case {
    Lib {
        trace: Vec<TMsg>,
        query: bool,
        filters: Vec<String>,
        window: (usize, usize),
        /// sizes of the batches in which messages become available; 0 = call without new messages
        batches: Vec<usize>,
        chunk: usize,
        /// (after batch k, new window end) for queries/streams
        window_growth: Vec<(usize, usize)>,
    },
    Server {
        trace: Vec<TMsg>,
        streams: Vec<StreamSpec>,
        /// commands are generated from the specs: create all (interleaved with waits), wait parsed, changes, searches, lookups
        early_wait: usize,
        sched: SchedCfg,
        server_max_read: usize,
        /// open with sort:true; the stream order is then observed through an unfiltered reference stream
        #[serde(default)]
        sorted: bool,
        /// open with collect:one_pass_streams: streams are created while the session is still paused, then resumed;
        /// the server drains messages every stream has seen
        #[serde(default)]
        one_pass: bool,
    },
}

fn run_lib(trace: &[TMsg], query: bool, filters: &[String], window: (usize, usize), batches: &[usize], chunk: usize, growth: &[(usize, usize)], ctx: &mut Ctx) -> Result<(), Violation> {
    let msgs = to_dlts(trace, 0);
    let log = slog::Logger::root(slog::Discard, slog::o!());
    let body = format!(r#"{{"window":[{},{}],"filters":[{}]}}"#, window.0, window.1, filters.join(","));
    let mut sc = match StreamContext::from(&log, if query { "query" } else { "stream" }, &body) {
        Ok(s) => s,
        Err(_) => {
            ctx.probe("stream_body_rejected");
            return Ok(());
        }
    };
    ctx.sig.u64(msgs.len() as u64 ^ ((query as u64) << 40) ^ ((chunk as u64) << 44));
    for f in filters {
        ctx.sig.str(f);
    }
    for b in batches.iter().take(30) {
        ctx.sig.u64(*b as u64);
    }
    let m_all: Vec<usize> = msgs.iter().enumerate().filter(|(_, m)| match_filters(m, &sc.filters)).map(|(i, _)| i).collect();
    let mut avail = 0usize;
    let chunk = std::cmp::max(1, chunk);
    let check = |sc: &StreamContext, avail: usize, what: &str| -> Result<(), Violation> {
        let p = sc.all_msgs_last_processed_len;
        if p > avail {
            viol!("processed-exceeds-available", "{}: processed {} > available {}", what, p, avail);
        }
        if sc.filters_active {
            let want: Vec<usize> = m_all.iter().copied().filter(|i| *i < p).collect();
            if sc.filtered_msgs != want {
                viol!("batching-dependent-filtered-set", "{}: filtered positions {:?}... differ from the matching positions below {} ({:?}...) [{} vs {}]", what, &sc.filtered_msgs[..std::cmp::min(8, sc.filtered_msgs.len())], p, &want[..std::cmp::min(8, want.len())], sc.filtered_msgs.len(), want.len());
            }
            if !sc.is_stream && sc.filtered_msgs.len() > sc.msgs_to_send.end {
                viol!("query-collected-beyond-window", "{}: {} positions collected, window end {}", what, sc.filtered_msgs.len(), sc.msgs_to_send.end);
            }
        }
        Ok(())
    };
    let mut calls = 0u64;
    for (k, b) in batches.iter().enumerate() {
        avail = std::cmp::min(msgs.len(), avail + b);
        let last = std::cmp::min(sc.all_msgs_last_processed_len, avail);
        process_stream_new_msgs(&mut sc, last, &msgs[last..avail], chunk);
        calls += 1;
        check(&sc, avail, &format!("after batch {} (+{})", k, b))?;
        for (at, e) in growth {
            if *at == k && *e >= sc.msgs_to_send.end {
                // the window only grows here (a shrinking window legitimately leaves more collected than wanted)
                sc.msgs_to_send.end = *e;
                ctx.probe("window_changed_between_calls");
            }
        }
    }
    // progress: no new messages, repeated calls must finish within a bound
    avail = msgs.len();
    let bound = msgs.len() / chunk + msgs.len() / 1 + 10;
    let mut n = 0;
    loop {
        let done = sc.all_msgs_last_processed_len >= avail || (!sc.is_stream && sc.filters_active && sc.filtered_msgs.len() >= sc.msgs_to_send.end);
        if done {
            break;
        }
        n += 1;
        if n > bound {
            viol!("no-progress", "after {} further calls without new messages: processed {} of {}, {} collected (window end {})", n, sc.all_msgs_last_processed_len, avail, sc.filtered_msgs.len(), sc.msgs_to_send.end);
        }
        let last = std::cmp::min(sc.all_msgs_last_processed_len, avail);
        process_stream_new_msgs(&mut sc, last, &msgs[last..avail], chunk);
        calls += 1;
        check(&sc, avail, "drain call")?;
    }
    // final content
    if sc.filters_active {
        let want: Vec<usize> = if sc.is_stream { m_all.clone() } else { m_all.iter().copied().take(sc.msgs_to_send.end).collect() };
        if sc.filtered_msgs != want {
            viol!("final-filtered-set", "final filtered positions ({}) differ from expected ({})", sc.filtered_msgs.len(), want.len());
        }
    }
    ctx.probe_n("process_stream_calls", calls);
    ctx.event_u64(sc.filtered_msgs.len() as u64);
    ctx.nontrivial = !m_all.is_empty() && m_all.len() < msgs.len();
    Ok(())
}

/// `early_wait` value that stands for "until the file has been loaded completely"
const EARLY_WAIT_PARSED: usize = usize::MAX;

/// 8 500 - 20 000 messages of a plain world (long logs are about batch sizes, not about lifecycle corner cases)
fn gen_big_session_trace(rng: &mut Rng) -> Vec<TMsg> {
    let mut k = rng.sub("bigknobs");
    let want = k.urange(8_500, 20_000);
    let mut knobs = WorldKnobs::gen(&mut k, want);
    knobs.f_clock_jump = false;
    let (mut trace, _) = gen_world(&mut rng.sub("bigworld"), &knobs);
    // a world may end early (few boots): repeat it with shifted times until the wanted length is reached
    if !trace.is_empty() {
        let span = trace.last().unwrap().rx_us - trace[0].rx_us + 1_000_000;
        let base = trace.clone();
        let mut round = 1u64;
        while trace.len() < want {
            for m in &base {
                let mut m2 = m.clone();
                m2.rx_us += span * round;
                m2.boot += 0;
                trace.push(m2);
                if trace.len() >= want {
                    break;
                }
            }
            round += 1;
        }
    }
    trace.truncate(want);
    if trace.is_empty() {
        trace.push(TMsg { ecu: 0, boot: 0, rx_us: WALL_BASE_US, ts: 1, has_ts: true, kind: K_LOG, app: 0, mcnt: 0, n: 1, flags: 0 });
    }
    trace
}

fn server_cmds(trace_len: usize, streams: &[StreamSpec], early_wait: usize, sorted: bool, one_pass: bool) -> (Vec<Cmd>, Vec<(usize, usize)>) {
    // returns commands and, per command index, (stream no, role) bookkeeping is recomputed in the checker
    let mut cmds = vec![Cmd::Open { variant: 0, sort: sorted, collect: if one_pass { "\"one_pass_streams\"".into() } else { "true".into() } }];
    let mut map = vec![(usize::MAX, 0)];
    for (si, s) in streams.iter().enumerate() {
        if si == 1 && early_wait > 0 {
            cmds.push(if early_wait == EARLY_WAIT_PARSED { Cmd::WaitParsed } else { Cmd::Wait(early_wait) });
            map.push((usize::MAX, 0));
        }
        cmds.push(Cmd::Stream { query: s.query, body: format!(r#"{{"window":[{},{}],"binary":{},"filters":{}{}}}"#, s.window.0, s.window.1, s.binary, filters_json(&s.filters), if one_pass { ",\"one_pass\":true" } else { "" }) });
        map.push((si, 1));
    }
    if one_pass {
        cmds.push(Cmd::Resume);
        map.push((usize::MAX, 0));
    }
    cmds.push(Cmd::WaitParsed);
    map.push((usize::MAX, 0));
    let _ = trace_len;
    (cmds, map)
}

fn run_server(trace: &[TMsg], streams_in: &[StreamSpec], early_wait: usize, sched: &SchedCfg, server_max_read: usize, sorted: bool, one_pass: bool, ctx: &mut Ctx) -> Result<(), Violation> {
    let msgs = to_dlts(trace, 0);
    // sorted sessions: stream #0 is an unfiltered reference stream over everything; it shows the stream order
    let mut streams_v: Vec<StreamSpec> = vec![];
    if sorted {
        streams_v.push(StreamSpec { query: false, filters: vec![], window: (0, msgs.len() + 10), binary: true, changes: vec![], search: None, lookups: vec![], time_lookups: vec![] });
    }
    streams_v.extend(streams_in.iter().cloned().map(|mut s| {
        if one_pass {
            // one_pass streams only support stop
            s.changes.clear();
            s.search = None;
            s.lookups.clear();
            s.time_lookups.clear();
        }
        s
    }));
    if one_pass {
        ctx.probe("one_pass_sessions");
    }
    if msgs.len() >= 8000 {
        ctx.probe("long_log_sessions");
    }
    let streams = &streams_v[..];
    // the lookups' own notion of a message's time: start of its lifecycle + timestamp (final table)
    let m_time: Vec<u64> = if streams.iter().any(|s| !s.time_lookups.is_empty()) {
        let r = crate::lc::run_stage(vec![msgs.clone()], ctx)?;
        let starts: BTreeMap<u32, u64> = r.table.iter().map(|l| (l.id, l.start)).collect();
        if r.out.len() != msgs.len() {
            vec![]
        } else {
            r.out.iter().map(|m| starts.get(&m.lifecycle).map(|s| s + m.timestamp_us()).unwrap_or(m.reception_time_us)).collect()
        }
    } else {
        vec![]
    };
    let texts: Vec<String> = msgs.iter().map(|m| m.payload_as_text().map(|t| t.to_string()).unwrap_or_default()).collect();
    ctx.sig.u64(msgs.len() as u64);
    for s in streams {
        ctx.sig.str(&filters_json(&s.filters));
        ctx.sig.u64((s.window.0 as u64) << 20 | s.window.1 as u64);
    }
    ctx.sig.u64(sched.seed ^ sorted as u64);
    // ---- build the command script; stream k of the session gets the k-th announced id
    let (mut cmds, _) = server_cmds(msgs.len(), streams, early_wait, sorted, one_pass);
    // after everything is parsed: window changes, searches, lookups (ids: Known(n) indexes the announced ids)
    // announced ids in order: one per created stream (if ok), then one per window change
    let mut known_n = streams.len();
    let mut cur_ref: Vec<usize> = (0..streams.len()).collect();
    #[derive(Clone)]
    enum Role {
        None,
        Create(usize),
        Change(usize, (usize, usize)),
        Search(usize),
        Lookup(usize, u32),
        TimeLookup(usize, u64),
    }
    let mut roles: Vec<Role> = cmds.iter().map(|_| Role::None).collect();
    {
        let mut si = 0;
        for (i, c) in cmds.iter().enumerate() {
            if let Cmd::Stream { .. } = c {
                roles[i] = Role::Create(si);
                si += 1;
            }
        }
    }
    for (si, s) in streams.iter().enumerate() {
        if s.query {
            continue; // queries end by themselves; window changes/searches are exercised on streams
        }
        for w in &s.changes {
            cmds.push(Cmd::ChangeWindow(SRef::Known(cur_ref[si]), format!("{},{}", w.0, w.1)));
            roles.push(Role::Change(si, *w));
            cur_ref[si] = known_n;
            known_n += 1;
            cmds.push(Cmd::Wait(300));
            roles.push(Role::None);
        }
        if let Some((fs, start, page)) = &s.search {
            cmds.push(Cmd::SearchPaged { r: SRef::Known(cur_ref[si]), filters: filters_json(fs), start_idx: *start, max_results: *page });
            roles.push(Role::Search(si));
        }
        for l in &s.lookups {
            cmds.push(Cmd::BinarySearch(SRef::Known(cur_ref[si]), format!("index={}", l)));
            roles.push(Role::Lookup(si, *l));
        }
        for (j, d) in &s.time_lookups {
            if let Some(t) = m_time.get(*j) {
                let t_ms = std::cmp::max(0, (*t / 1000) as i64 + *d as i64) as u64;
                cmds.push(Cmd::BinarySearch(SRef::Known(cur_ref[si]), format!("time_ms={}", t_ms)));
                roles.push(Role::TimeLookup(si, t_ms));
            }
        }
    }
    cmds.push(Cmd::Wait(200));
    roles.push(Role::None);
    cmds.push(Cmd::Close);
    roles.push(Role::None);
    let mut sc = sched.clone();
    sc.max_steps = std::cmp::max(8_000_000, sched.max_steps);
    let session = Session { trace: trace.to_vec(), cmds: cmds.clone(), sched: sc, server_max_read, poll_budget: 30_000 };
    let t = run_session(&session, ctx)?;
    // generic protocol consistency first (exactly one reply etc.)
    crate::c15::check_transcript(&session, &t, ctx)?;
    // ---- model
    // stream order: stream position -> message (file order unless sorted; then what the reference stream showed)
    let order: Vec<usize> = if sorted {
        let ref_id = t.events.iter().find_map(|e| if let Ev::Reply { cmd_no, text } = e { if matches!(roles[*cmd_no], Role::Create(0)) { announced_id(text) } else { None } } else { None });
        let mut o: Vec<usize> = vec![];
        for e in t.events.iter() {
            if let Ev::Msgs { id, msgs: ms } = e {
                if Some(*id) == ref_id {
                    o.extend(ms.iter().map(|r| r.index as usize));
                }
            }
        }
        let mut seen = vec![false; msgs.len()];
        for i in &o {
            if *i >= msgs.len() || seen[*i] {
                viol!("sorted-stream-not-permutation", "the unfiltered stream of the sorted file delivered message index {} twice or out of range", i);
            }
            seen[*i] = true;
        }
        if o.len() != msgs.len() {
            let missing: Vec<usize> = (0..msgs.len()).filter(|i| !seen[*i]).take(16).collect();
            let pos_last = o.len().saturating_sub(3);
            let last_fi = t.events.iter().rev().find_map(|e| if let Ev::FileInfo(n) = e { Some(*n) } else { None });
            let last_si = t.events.iter().rev().find_map(|e| if let Ev::StreamInfo { id, nr_stream_msgs, processed, total } = e { if Some(*id) == ref_id { Some((*nr_stream_msgs, *processed, *total)) } else { None } } else { None });
            let n_ev = t.events.len();
            let pos_last_msgs = t.events.iter().rposition(|e| matches!(e, Ev::Msgs { id, .. } if Some(*id) == ref_id));
            let dbg = format!("last FileInfo {:?}, last StreamInfo of the stream {:?}, events {}, last frame of the stream at event {:?}", last_fi, last_si, n_ev, pos_last_msgs);
            viol!("sorted-stream-not-permutation", "the unfiltered stream of the sorted file delivered {} of {} messages although parsing finished long ago (missing indices {:?}..., last delivered {:?}; {})", o.len(), msgs.len(), missing, &o[pos_last..], dbg);
        }
        ctx.probe("sorted_sessions");
        if o.windows(2).any(|w| w[0] > w[1]) {
            ctx.probe("sorted_sessions_order_differs_from_file");
        }
        o
    } else {
        (0..msgs.len()).collect()
    };
    let mut pos_of = vec![0usize; msgs.len()];
    for (p, i) in order.iter().enumerate() {
        pos_of[*i] = p;
    }
    // per stream: the stream positions that pass its filters
    let filtered: Vec<Vec<usize>> = streams.iter().map(|s| (0..order.len()).filter(|p| set_keeps(&s.filters, &msgs[order[*p]], &texts[order[*p]])).collect()).collect();
    // walk the transcript: which id belongs to which (stream, window)
    let mut id_info: BTreeMap<u32, (usize, (usize, usize), usize)> = BTreeMap::new(); // id -> (stream, window, event index of the announcing reply)
    let mut announced: Vec<Option<u32>> = vec![];
    let mut replies: BTreeMap<usize, Vec<(usize, String)>> = BTreeMap::new();
    for (ei, e) in t.events.iter().enumerate() {
        if let Ev::Reply { cmd_no, text } = e {
            replies.entry(*cmd_no).or_default().push((ei, text.clone()));
        }
    }
    let mut cur_window: Vec<(usize, usize)> = streams.iter().map(|s| s.window).collect();
    for (ci, role) in roles.iter().enumerate() {
        match role {
            Role::Create(si) => {
                let r = replies.get(&ci).and_then(|v| v.first());
                match r.and_then(|(ei, txt)| announced_id(txt).map(|id| (*ei, id))) {
                    Some((ei, id)) => {
                        id_info.insert(id, (*si, streams[*si].window, ei));
                        announced.push(Some(id));
                    }
                    None => viol!("stream-not-created", "stream #{} was not created: {:?}", si, r.map(|x| &x.1)),
                }
            }
            Role::Change(si, w) => {
                let r = replies.get(&ci).and_then(|v| v.first());
                match r.and_then(|(ei, txt)| announced_id(txt).map(|id| (*ei, id))) {
                    Some((ei, id)) => {
                        id_info.insert(id, (*si, *w, ei));
                        cur_window[*si] = *w;
                        ctx.probe("window_changes_checked");
                    }
                    None => viol!("window-change-failed", "window change of stream #{} to {:?} failed: {:?}", si, w, r.map(|x| &x.1)),
                }
            }
            _ => {}
        }
    }
    // frames per id
    let mut got: BTreeMap<u32, Vec<MsgRec>> = BTreeMap::new();
    let mut got_text: BTreeMap<u32, Vec<usize>> = BTreeMap::new();
    let mut ended: BTreeMap<u32, usize> = BTreeMap::new();
    for (ei, e) in t.events.iter().enumerate() {
        match e {
            Ev::Msgs { id, msgs: ms } => {
                match id_info.get(id) {
                    None => viol!("frames-under-unannounced-id", "stream data under id {} which no reply announced", id),
                    Some((_, _, aei)) => {
                        if ei < *aei {
                            viol!("frames-before-announcement", "stream data under id {} arrived before the reply announcing it", id);
                        }
                    }
                }
                if ms.is_empty() {
                    ended.insert(*id, ei);
                } else {
                    if ended.contains_key(id) {
                        viol!("frames-after-end", "stream data under id {} after its end-of-query frame", id);
                    }
                    got.entry(*id).or_default().extend(ms.iter().cloned());
                }
            }
            Ev::TextMsg { id, pos } => {
                match id_info.get(id) {
                    None => viol!("frames-under-unannounced-id", "text stream data under id {} which no reply announced", id),
                    Some((_, _, aei)) => {
                        if ei < *aei {
                            viol!("frames-before-announcement", "text stream data under id {} arrived before the reply announcing it", id);
                        }
                    }
                }
                got_text.entry(*id).or_default().push(*pos);
            }
            _ => {}
        }
    }
    // which ids are the final ids of their stream (a changed-away id may legitimately be incomplete)
    let mut superseded: BTreeMap<u32, bool> = BTreeMap::new();
    {
        let mut last_of: BTreeMap<usize, u32> = BTreeMap::new();
        let mut by_ev: Vec<(&u32, &(usize, (usize, usize), usize))> = id_info.iter().collect();
        by_ev.sort_by_key(|(_, v)| v.2);
        for (id, (si, _, _)) in by_ev {
            if let Some(prev) = last_of.insert(*si, *id) {
                superseded.insert(prev, true);
            }
        }
    }
    for (id, (si, w, _)) in id_info.iter() {
        let f = &filtered[*si];
        let lo = std::cmp::min(w.0, f.len());
        let hi = std::cmp::min(std::cmp::max(w.1, w.0), f.len());
        let want: Vec<usize> = f[lo..hi].to_vec();
        let tag = format!("stream #{} id {} window {:?} (filters {}, {} of {} messages match)", si, id, w, filters_json(&streams[*si].filters), f.len(), msgs.len());
        if streams[*si].binary || streams[*si].query {
            let g = got.get(id).cloned().unwrap_or_default();
            let complete_expected = !superseded.contains_key(id);
            // prefix property always; completeness for the final id of a stream after the parser finished
            for (k, r) in g.iter().enumerate() {
                if k >= want.len() {
                    viol!("window-overrun", "{}: received {} messages, window holds {}", tag, g.len(), want.len());
                }
                let m = &msgs[order[want[k]]];
                if r.index != m.index {
                    viol!("window-content", "{}: position {} carries message index {} but {} expected (each once, in order)", tag, lo + k, r.index, m.index);
                }
                let apid = m.extended_header.as_ref().map(|x| x.apid.as_u32le()).unwrap_or(0);
                let ctid = m.extended_header.as_ref().map(|x| x.ctid.as_u32le()).unwrap_or(0);
                if r.reception_time != m.reception_time_us || r.timestamp_dms != m.timestamp_dms || r.ecu != m.ecu.as_u32le() || r.apid != apid || r.ctid != ctid || r.mcnt != m.mcnt() || r.text != texts[order[want[k]]] {
                    viol!("message-fields", "{}: message index {} differs from the file's (times/ids/counter/text)", tag, m.index);
                }
            }
            if complete_expected && g.len() != want.len() {
                viol!("window-incomplete", "{}: received {} of {} messages although parsing finished long ago", tag, g.len(), want.len());
            }
            if streams[*si].query && complete_expected && !ended.contains_key(id) {
                viol!("query-not-terminated", "{}: no end-of-query frame", tag);
            }
            ctx.probe_n("stream_messages_compared", g.len() as u64);
        } else {
            let g = got_text.get(id).cloned().unwrap_or_default();
            let wantp: Vec<usize> = (lo..hi).collect();
            if g.len() > wantp.len() || g[..] != wantp[..g.len()] {
                viol!("window-content", "{}: text stream positions {:?}... but {:?}... expected", tag, &g[..std::cmp::min(6, g.len())], &wantp[..std::cmp::min(6, wantp.len())]);
            }
            if !superseded.contains_key(id) && g.len() != wantp.len() {
                viol!("window-incomplete", "{}: received {} of {} text messages", tag, g.len(), wantp.len());
            }
        }
    }
    // searches and lookups
    for (ci, role) in roles.iter().enumerate() {
        match role {
            Role::Search(si) => {
                let s = &streams[*si];
                let (fs, start, page) = s.search.as_ref().unwrap();
                let f = &filtered[*si];
                let mut union: Vec<u64> = vec![];
                for (_, txt) in replies.get(&ci).cloned().unwrap_or_default() {
                    if !txt.starts_with("ok:") {
                        viol!("search-failed", "search on stream #{} failed: {}", si, &txt[..std::cmp::min(100, txt.len())]);
                    }
                    let v: serde_json::Value = txt.split_once('=').and_then(|(_, j)| serde_json::from_str(j).ok()).unwrap_or(serde_json::Value::Null);
                    if let Some(a) = v["search_idxs"].as_array() {
                        if a.len() > *page {
                            viol!("search-page-overrun", "page of {} results for max_results {}", a.len(), page);
                        }
                        union.extend(a.iter().filter_map(|x| x.as_u64()));
                    }
                }
                let want: Vec<u64> = (0..f.len()).filter(|p| *p >= *start && set_keeps(fs, &msgs[order[f[*p]]], &texts[order[f[*p]]])).map(|p| p as u64).collect();
                if union != want {
                    let cls = if s.filters.iter().all(|x| !x.enabled || x.kind == 2) { "search-in-unfiltered-stream" } else { "search-paging" };
                    viol!(cls, "stream #{} (filters {}): paging from {} with page size {} visited matches {:?}... but the matching stream positions are {:?}... ({} vs {})", si, filters_json(&s.filters), start, page, &union[..std::cmp::min(8, union.len())], &want[..std::cmp::min(8, want.len())], union.len(), want.len());
                }
                ctx.probe("searches_checked");
            }
            Role::Lookup(si, idx) => {
                let f = &filtered[*si];
                if let Some((_, txt)) = replies.get(&ci).and_then(|v| v.first()) {
                    if (*idx as usize) < msgs.len() {
                        if !txt.starts_with("ok:") {
                            viol!("lookup-failed", "index lookup {} on stream #{} failed: {}", idx, si, &txt[..std::cmp::min(100, txt.len())]);
                        }
                        let v: serde_json::Value = txt.split_once('=').and_then(|(_, j)| serde_json::from_str(j).ok()).unwrap_or(serde_json::Value::Null);
                        let got = v["filtered_msg_index"].as_u64();
                        let want = f.iter().filter(|p| **p < pos_of[*idx as usize]).count() as u64;
                        if got != Some(want) {
                            let cls = if streams[*si].filters.iter().all(|x| !x.enabled || x.kind == 2) { "lookup-in-unfiltered-stream" } else if sorted { "lookup-index-sorted" } else { "lookup-index" };
                            viol!(cls, "stream #{}: lookup of message index {} returned {:?}, the first stream position not before it is {}", si, idx, got, want);
                        }
                        ctx.probe("lookups_checked");
                    }
                }
            }
            Role::TimeLookup(si, t_ms) => {
                let f = &filtered[*si];
                let tm: Vec<u64> = order.iter().map(|i| m_time[*i]).collect();
                if tm.windows(2).any(|w| w[0] > w[1]) {
                    // the lookup presupposes a stream ordered by this time; nothing to judge otherwise
                    ctx.probe("time_lookups_unjudged_stream_not_ordered_by_time");
                    continue;
                }
                if let Some((_, txt)) = replies.get(&ci).and_then(|v| v.first()) {
                    if !txt.starts_with("ok:") {
                        viol!("lookup-failed", "time lookup {} ms on stream #{} failed: {}", t_ms, si, &txt[..std::cmp::min(100, txt.len())]);
                    }
                    let v: serde_json::Value = txt.split_once('=').and_then(|(_, j)| serde_json::from_str(j).ok()).unwrap_or(serde_json::Value::Null);
                    let got = v["filtered_msg_index"].as_u64();
                    let p = tm.iter().position(|x| *x >= t_ms * 1000).unwrap_or(tm.len());
                    let want = f.iter().filter(|q| **q < p).count() as u64;
                    if got != Some(want) {
                        let ties = p + 1 < tm.len() && tm[p] == tm[p + 1];
                        viol!(if ties { "lookup-time-ties" } else { "lookup-time" }, "stream #{}: lookup of time {} ms returned {:?}, the first stream position not before that time is {} (stream of {} messages, times around: {:?})", si, t_ms, got, want, f.len(), &tm[p.saturating_sub(2)..std::cmp::min(tm.len(), p + 3)]);
                    }
                    ctx.probe("time_lookups_checked");
                }
            }
            _ => {}
        }
    }
    ctx.nontrivial = filtered.iter().any(|f| !f.is_empty() && f.len() < msgs.len());
    Ok(())
}

pub struct C16;
impl Check for C16 {
    type Case = Case;
    const ID: &'static str = "C16";
    fn runs(t: Tier) -> u64 {
        t.pick(30_000, 1_000_000)
    }
    fn generate(rng: &mut Rng, _tier: Tier, idx: u64) -> Case {
        if idx % 3 != 0 {
            let mut k = rng.sub("knobs");
            let max_msgs = k.urange(5, 300);
            let knobs = WorldKnobs::gen(&mut k, max_msgs);
            let (mut trace, _) = gen_world(&mut rng.sub("world"), &knobs);
            trace.truncate(300);
            if trace.is_empty() {
                trace.push(TMsg { ecu: 0, boot: 0, rx_us: WALL_BASE_US, ts: 1, has_ts: true, kind: K_LOG, app: 0, mcnt: 0, n: 1, flags: 0 });
            }
            let nf = k.weighted(&[5, 30, 30, 20, 15]);
            let mut fr = rng.sub("filters");
            let filters: Vec<String> = (0..nf).map(|_| crate::c12::gen_filter_json(&mut fr)).collect();
            let n = trace.len();
            let mut batches = vec![];
            let mut left = n;
            while left > 0 {
                let b = match k.below(6) {
                    0 => 0,
                    1 => 1,
                    2 => k.urange(1, 5),
                    3 => k.urange(1, 64),
                    _ => k.urange(1, left),
                };
                let b = std::cmp::min(b, left);
                batches.push(b);
                left -= b;
            }
            let w0 = match k.below(4) { 0 => 0, 1 => k.usize(10), _ => k.usize(n + 5) };
            let w1 = match k.below(5) { 0 => w0, 1 => w0 + 1, 2 => n + 10, _ => w0 + k.usize(n + 1) };
            let nb = batches.len();
            let window_growth = if k.chance(1, 3) { (0..k.urange(1, 3)).map(|_| (k.usize(nb), w1 + k.usize(n + 1))).collect() } else { vec![] };
            Case::Lib { trace, query: k.bool(), filters, window: (w0, w1), batches, chunk: *k.pick(&[1usize, 2, 7, 64, 3_000_000]), window_growth }
        } else {
            // one session in 150 serves a long log (more than any per-iteration batch of the server loop), and its
            // second stream is requested only after the file has been loaded completely
            let big = rng.sub("biglog").chance(1, 150);
            let trace = if big { gen_big_session_trace(rng) } else { gen_session_trace(rng, 250) };
            let n = trace.len();
            let mut k = rng.sub("server");
            let ns = if big { 2 } else { k.urange(1, 3) };
            let mut streams = vec![];
            for _ in 0..ns {
                let nf = k.weighted(&[25, 35, 25, 15]);
                let filters: Vec<RFilter> = (0..nf).map(|_| gen_rfilter(&mut k)).collect();
                let w0 = match k.below(4) { 0 => 0, 1 => k.usize(10), _ => k.usize(n + 5) };
                let w1 = match k.below(5) { 0 => w0, 1 => w0 + 1, 2 => n + 10, _ => w0 + k.usize(n + 1) };
                let query = k.chance(1, 3);
                let changes = if !query && k.chance(1, 2) { (0..k.urange(1, 2)).map(|_| { let a = k.usize(n + 3); (a, a + k.usize(n + 1)) }).collect() } else { vec![] };
                let search = if !query && k.chance(1, 2) { Some(((0..k.urange(0, 2)).map(|_| gen_rfilter(&mut k)).map(|mut f| { f.kind = 0; f }).collect(), k.usize(5), *k.pick(&[1usize, 2, 3, 10, 100])) ) } else { None };
                let lookups = if !query && k.chance(1, 2) { (0..k.urange(1, 3)).map(|_| k.usize(n) as u32).collect() } else { vec![] };
                let time_lookups = if !query && k.chance(1, 2) { (0..k.urange(1, 3)).map(|_| (k.usize(n), *k.pick(&[0i32, 0, 0, 1, -1, 2, -3, 1000, -1000]))).collect() } else { vec![] };
                streams.push(StreamSpec { query, filters, window: (w0, w1), binary: query || k.chance(3, 4), changes, search, lookups, time_lookups });
            }
            let mut sched = SchedCfg::gen(&mut rng.sub("sched"));
            sched.max_steps = if big { 400_000_000 } else { 8_000_000 };
            let sorted = k.chance(2, 5);
            let one_pass = k.chance(1, 4);
            let early_wait = *k.pick(&[0usize, 0, 5, 50, 400]);
            if big {
                // the late stream asks for (nearly) everything, as a query in two of three cases
                let s = &mut streams[1];
                s.query = k.chance(2, 3);
                s.binary = s.query || s.binary;
                if s.query {
                    s.changes.clear();
                    s.search = None;
                    s.lookups.clear();
                    s.time_lookups.clear();
                }
                if k.chance(2, 3) {
                    s.filters.clear();
                }
                s.window = (k.usize(10), n + 10 - k.usize(20));
            }
            Case::Server { trace, streams, early_wait: if big && !one_pass { EARLY_WAIT_PARSED } else { early_wait }, sched, server_max_read: *k.pick(&[0usize, 0, 7, 100]), sorted, one_pass }
        }
    }
    fn run(c: &Case, ctx: &mut Ctx) -> Result<(), Violation> {
        match c {
            Case::Lib { trace, query, filters, window, batches, chunk, window_growth } => {
                ctx.sig.u64(1);
                ctx.probe("library_level_runs");
                run_lib(trace, *query, filters, *window, batches, *chunk, window_growth, ctx)
            }
            Case::Server { trace, streams, early_wait, sched, server_max_read, sorted, one_pass } => {
                ctx.sig.u64(2);
                ctx.probe("server_level_runs");
                run_server(trace, streams, *early_wait, sched, *server_max_read, *sorted, *one_pass, ctx)
            }
        }
    }
    fn shrink(c: &Case) -> Vec<Case> {
        let mut out = vec![];
        match c {
            Case::Lib { trace, query, filters, window, batches, chunk, window_growth } => {
                for t in shrink_vec(trace) {
                    let n = t.len();
                    out.push(Case::Lib { trace: t, query: *query, filters: filters.clone(), window: *window, batches: vec![n], chunk: *chunk, window_growth: vec![] });
                }
                for f in shrink_vec(filters) {
                    out.push(Case::Lib { trace: trace.clone(), query: *query, filters: f, window: *window, batches: batches.clone(), chunk: *chunk, window_growth: window_growth.clone() });
                }
                if batches.len() > 1 {
                    out.push(Case::Lib { trace: trace.clone(), query: *query, filters: filters.clone(), window: *window, batches: vec![trace.len()], chunk: *chunk, window_growth: vec![] });
                }
                if !window_growth.is_empty() {
                    out.push(Case::Lib { trace: trace.clone(), query: *query, filters: filters.clone(), window: *window, batches: batches.clone(), chunk: *chunk, window_growth: vec![] });
                }
            }
            Case::Server { trace, streams, early_wait, sched, server_max_read, sorted, one_pass } => {
                let mk = |trace: Vec<TMsg>, streams: Vec<StreamSpec>, sched: SchedCfg| Case::Server { trace, streams, early_wait: *early_wait, sched, server_max_read: *server_max_read, sorted: *sorted, one_pass: *one_pass };
                for t in shrink_vec(trace) {
                    if !t.is_empty() {
                        out.push(mk(t, streams.clone(), sched.clone()));
                    }
                }
                if streams.len() > 1 {
                    for i in 0..streams.len() {
                        let mut s = streams.clone();
                        s.remove(i);
                        out.push(mk(trace.clone(), s, sched.clone()));
                    }
                }
                for (i, s) in streams.iter().enumerate() {
                    let mut variants = vec![];
                    if !s.changes.is_empty() { let mut x = s.clone(); x.changes.clear(); variants.push(x); }
                    if s.search.is_some() { let mut x = s.clone(); x.search = None; variants.push(x); }
                    if !s.lookups.is_empty() { let mut x = s.clone(); x.lookups.clear(); variants.push(x); }
                    if !s.time_lookups.is_empty() { let mut x = s.clone(); x.time_lookups.clear(); variants.push(x); }
                    if s.time_lookups.len() > 1 { for l in &s.time_lookups { let mut x = s.clone(); x.time_lookups = vec![*l]; variants.push(x); } }
                    if s.lookups.len() > 1 { for l in &s.lookups { let mut x = s.clone(); x.lookups = vec![*l]; variants.push(x); } }
                    for f in shrink_vec(&s.filters) { let mut x = s.clone(); x.filters = f; variants.push(x); }
                    if let Some((fs, st, pg)) = &s.search { for f in shrink_vec(fs) { let mut x = s.clone(); x.search = Some((f, *st, *pg)); variants.push(x); } }
                    for v in variants {
                        let mut ss = streams.clone();
                        ss[i] = v;
                        out.push(mk(trace.clone(), ss, sched.clone()));
                    }
                }
                if !matches!(sched.kind, SchedKind::RoundRobin) {
                    let mut s = sched.clone();
                    s.kind = SchedKind::RoundRobin;
                    s.caps = vec![];
                    out.push(mk(trace.clone(), streams.clone(), s));
                }
            }
        }
        out
    }
    fn finding_key(_c: &Case, v: &Violation) -> Option<String> {
        match v.class.as_str() {
            "search-paging" => Some("C16-search-paging-skips-position".into()),
            "search-in-unfiltered-stream" => Some("C16-search-in-unfiltered-stream-empty".into()),
            "lookup-in-unfiltered-stream" => Some("C16-index-lookup-in-unfiltered-stream".into()),
            "lookup-time-ties" => Some("C16-time-lookup-ties".into()),
            "lookup-index-sorted" => Some("C16-index-lookup-sorted-filtered".into()),
            _ => crate::lc::lc_finding_key(v),
        }
    }
    fn rule() -> &'static str {
        "two kinds of runs: (lib) a simulated log (<= 300 messages), a generated filter set, stream or query with a window; StreamContext::from + process_stream_new_msgs are driven exactly like the server loop drives them with arbitrary arrival batchings (0..n new messages per call), chunk sizes {1,2,7,64,3M} and window growth between calls; after EVERY call filtered positions == matching positions below the processed length, nothing beyond the window for queries, processed <= available, and bounded progress once arrivals stop; (server) one websocket session (as C15) with 1-3 streams/queries with restricted filters (independent reference predicate), windows (empty, beyond the end, overlapping), binary and text streams, later window changes, paged searches with all page sizes and start positions, index lookups, time lookups (at/around the calculated time of a chosen message); one session in four opens with collect:one_pass_streams (streams with one_pass:true created while paused, then resume; the server drains what every stream has seen); two in five sessions open the file with sort:true - the stream order is then whatever an additional unfiltered reference stream delivered (required to be a permutation of the file) and every filtered window, search and lookup is judged against that order; frames per announced id compared with the model's filtered sequence; non-trivial = the filter set keeps some and drops some messages; distinct = hash of the case"
    }
    fn assumptions() -> Vec<&'static str> {
        vec![
            "whether a sorted stream is correctly ordered is C10's question; here a sorted session's order is taken from its unfiltered reference stream",
            "a time lookup is judged only when the stream is ordered (non-strictly) by the lookup's own time function (start of the message's lifecycle, from an offline run of the lifecycle stage over the same file, plus timestamp); otherwise a binary search has no defined answer and the lookup only has to be answered",
            "'eventually' = after the server reported all messages parsed plus 300 further client polls; an id that was replaced by a window change may legitimately be incomplete",
            "library level M uses the real match_filters (batching invariance is what is decided there); server level uses an independent reference predicate over the restricted criteria the generator emits",
        ]
    }
    fn real_components() -> Vec<&'static str> {
        vec!["remote_utils::{StreamContext::from, process_stream_new_msgs, match_filters}", "remote::{process_file_context, process_incoming_text_message, process_stream_search_params, binary_search_by_msg_index, binary_search_by_time_us}", "sort thread (buffer_sort_messages) in sorted sessions", "parser pipeline threads", "tungstenite framing, bincode frames"]
    }
    fn stub_components() -> Vec<&'static str> {
        vec!["connection loop replica (H2)", "in-memory transport, simulated clock", "client + model"]
    }
    fn required_reach() -> Vec<&'static str> {
        vec!["library_level_runs", "server_level_runs", "window_changed_between_calls", "window_changes_checked", "searches_checked", "lookups_checked", "time_lookups_checked", "sorted_sessions", "sorted_sessions_order_differs_from_file", "one_pass_sessions", "long_log_sessions", "stream_messages_compared"]
    }
}
