//! C19 — Plugins keep the stream intact; anonymisation keeps its structure (E2 -> E3 plugin stage)

use crate::fw::{shrink_vec, Check, Ctx, Tier, Violation};
use crate::lc::run_stage;
use crate::rng::Rng;
use crate::sh::{self, SchedCfg, SchedKind};
use crate::viol;
use crate::world::*;
use adlt::dlt::{DltChar4, DltExtendedHeader, DltMessage};
use adlt::plugins::plugin::Plugin;
use adlt::utils::sync_sender_send_delay_if_full;
use adlt_verif_seam::std as sstd;
use serde::{Deserialize, Serialize};
use std::collections::{BTreeMap, HashMap};

pub const P_NONVERBOSE: u8 = 0;
pub const P_SOMEIP: u8 = 1;
pub const P_CAN: u8 = 2;
pub const P_MUNIIC: u8 = 3;
pub const P_REWRITE: u8 = 4;
pub const P_FILETRANSFER_KEEP: u8 = 5;
pub const P_FILETRANSFER_DROP: u8 = 6;
/// dropping file transfer plugins restricted to an application (SYS), an application and a context (SYS/FILE), a context (FILE)
pub const P_FT_DROP_APID: u8 = 7;
pub const P_FT_DROP_BOTH: u8 = 8;
pub const P_FT_DROP_CTID: u8 = 9;

/// message shapes that hit the plugins (selected by `special`), everything else is plain traffic
#[derive(Clone, Debug, Serialize, Deserialize)]
pub struct PMsg {
    pub t: TMsg,
    /// 0 plain, 1 non-verbose frame of the FIBEX, 2 SOME/IP, 3 CAN, 4 Muniic, 5 rewrite target, 6 file transfer (FLST/FLDA/FLFI and near misses), 7 segmented SOME/IP (NWST/NWCH/NWEN)
    pub special: u8,
    pub variant: u32,
}

#[derive(Clone, Debug, Serialize, Deserialize)]
pub enum Case {
    Plugins { msgs: Vec<PMsg>, plugins: Vec<u8>, sched: SchedCfg },
    Anon { trace: Vec<TMsg>, n_ecus: u32, n_apids: u32, n_ctids: u32 },
}

fn put32(p: &mut Vec<u8>, v: u32) {
    p.extend_from_slice(&v.to_le_bytes())
}
fn arg_raw(p: &mut Vec<u8>, d: &[u8]) {
    put32(p, 0x400);
    p.extend_from_slice(&(d.len() as u16).to_le_bytes());
    p.extend_from_slice(d);
}
fn arg_u32(p: &mut Vec<u8>, v: u32) {
    put32(p, 0x43);
    put32(p, v);
}
fn arg_u8(p: &mut Vec<u8>, v: u8) {
    put32(p, 0x41);
    p.push(v);
}
fn arg_stra(p: &mut Vec<u8>, s: &str) {
    // ASCII coded string
    put32(p, 0x200);
    p.extend_from_slice(&((s.len() + 1) as u16).to_le_bytes());
    p.extend_from_slice(s.as_bytes());
    p.push(0);
}
fn arg_str(p: &mut Vec<u8>, s: &str) {
    put32(p, 0x8200);
    p.extend_from_slice(&((s.len() + 1) as u16).to_le_bytes());
    p.extend_from_slice(s.as_bytes());
    p.push(0);
}

pub fn build(m: &PMsg, index: u32) -> DltMessage {
    let mut d = m.t.to_dlt(index);
    let v = m.variant;
    let ext = |vmm: u8, noar: u8, apid: &[u8; 4], ctid: &[u8; 4]| {
        Some(DltExtendedHeader { verb_mstp_mtin: vmm, noar, apid: DltChar4::from_buf(apid), ctid: DltChar4::from_buf(ctid) })
    };
    match m.special {
        1 => {
            // non-verbose message of ECU "Ecu1" with an id from tests/non_verbose*.xml (or near it)
            d.ecu = DltChar4::from_buf(if v % 7 == 0 { b"ECU0" } else { b"Ecu1" });
            let id = match v % 5 {
                0 => 805312382u32,
                1 => 805834673,
                2 => 800000000,
                3 => 805312383,
                _ => v,
            };
            let mut p = id.to_le_bytes().to_vec();
            // 7..=10: the data after the id is 1..=4 bytes short of the 11 byte frame of ID_805834673
            let extra = match (v / 5) % 8 {
                0 => 0,
                1 => 11,
                2 => 3,
                3 => 40,
                4 => 7,
                5 => 8,
                6 => 9,
                _ => 10,
            };
            for i in 0..extra {
                p.push((v as u8).wrapping_add(i as u8));
            }
            d.payload = p;
            d.extended_header = if v % 3 == 0 { None } else { ext(4 << 4, 0, b"XXXX", b"YYYY") };
        }
        2 => {
            // SOME/IP over nw trace ipc, ctid TC
            let mut p = vec![];
            let hdr_len = [9usize, 10, 12, 5][(v % 4) as usize];
            arg_raw(&mut p, &vec![1u8; hdr_len]);
            let (sid, mid): (u16, u16) = if v % 3 == 0 { (64098, 1000) } else if v % 3 == 1 { (64098, (v % 2000) as u16) } else { ((v % 65536) as u16, 1) };
            let mut s = vec![];
            s.extend_from_slice(&sid.to_be_bytes());
            s.extend_from_slice(&mid.to_be_bytes());
            let body = ((v / 7) % 24) as usize;
            s.extend_from_slice(&((8 + body) as u32).to_be_bytes());
            s.extend_from_slice(&[0, 1, 0, 2, 1, 1, (v % 3) as u8, 0]);
            s.extend(std::iter::repeat((v % 251) as u8).take(body));
            if v % 11 == 0 {
                s.truncate(s.len() / 2);
            }
            arg_raw(&mut p, &s);
            d.payload = p;
            d.extended_header = ext(0x01 | (2 << 1) | (1 << 4), 2, b"SOME", if v % 9 == 0 { b"XX\0\0" } else { b"TC\0\0" });
        }
        3 => {
            let mut p = vec![];
            arg_u32(&mut p, if v % 4 == 0 { 0 } else { v % 0x800 });
            arg_raw(&mut p, &vec![(v % 256) as u8; (v % 9) as usize]);
            d.payload = p;
            d.extended_header = ext(0x01 | (2 << 1) | (2 << 4), 2, b"CAN\0", if v % 9 == 0 { b"XX\0\0" } else { b"TC\0\0" });
        }
        4 => {
            let mut p = vec![];
            arg_str(&mut p, "HmiP");
            arg_u32(&mut p, 5711);
            arg_u32(&mut p, 83029);
            arg_u32(&mut p, 7);
            arg_u32(&mut p, 0);
            arg_str(&mut p, "InitialData...");
            arg_str(&mut p, "[Hmi]");
            // interface / message id: u32 as a rule; sometimes another width
            match (v / 100) % 6 {
                0 => {
                    put32(&mut p, 0x44);
                    p.extend_from_slice(&(v as u64 * 1_000_003).to_le_bytes());
                    arg_u32(&mut p, if v % 2 == 0 { 3478824001 } else { v.wrapping_mul(3) });
                }
                1 => {
                    arg_u32(&mut p, if v % 3 == 0 { 1228779599 } else { v });
                    put32(&mut p, 0x44);
                    p.extend_from_slice(&u64::MAX.to_le_bytes());
                }
                2 => {
                    put32(&mut p, 0x42);
                    p.extend_from_slice(&(v as u16).to_le_bytes());
                    put32(&mut p, 0x41);
                    p.push(v as u8);
                }
                _ => {
                    arg_u32(&mut p, if v % 3 == 0 { 1228779599 } else { v });
                    arg_u32(&mut p, if v % 2 == 0 { 3478824001 } else { v.wrapping_mul(3) });
                }
            }
            arg_str(&mut p, "C/LC:");
            arg_u8(&mut p, 2);
            arg_u8(&mut p, 0);
            arg_raw(&mut p, &vec![1u8; (v % 5) as usize]);
            d.payload = p;
            d.extended_header = ext(0x01 | (4 << 4), 13, b"MUNI", if v % 8 == 0 { b"MDLT" } else { b"MMSG" });
        }
        5 => {
            let mut p = vec![];
            let text = match v % 4 {
                0 => format!("a b {}.{} rest of text {}", v % 1000, v % 97, v),
                1 => "no match here".to_string(),
                2 => format!("x y 99999999999.5 huge {}", v),
                _ => format!("p q 0.0001 {}", v),
            };
            arg_str(&mut p, &text);
            d.payload = p;
            d.extended_header = ext(0x01 | (4 << 4), 1, b"SYS\0", if v % 6 == 0 { b"XXXX" } else { b"JOUR" });
        }
        6 => {
            let mut p = vec![];
            let serial = (v / 4) % 3;
            let noar;
            match v % 4 {
                0 => {
                    // data package
                    arg_stra(&mut p, "FLDA");
                    arg_u32(&mut p, serial);
                    arg_u32(&mut p, (v / 16) % 4 + 1);
                    arg_raw(&mut p, &vec![(v % 251) as u8; ((v / 64) % 40) as usize]);
                    arg_stra(&mut p, "FLDA");
                    noar = 5;
                }
                1 => {
                    arg_stra(&mut p, "FLST");
                    arg_u32(&mut p, serial);
                    arg_stra(&mut p, "file.bin");
                    arg_u32(&mut p, (v / 64) % 200);
                    arg_stra(&mut p, "date");
                    arg_u32(&mut p, (v / 16) % 5);
                    arg_u32(&mut p, 40);
                    arg_stra(&mut p, "FLST");
                    noar = 8;
                }
                2 => {
                    arg_stra(&mut p, "FLFI");
                    arg_u32(&mut p, serial);
                    arg_stra(&mut p, "FLFI");
                    noar = 3;
                }
                _ => {
                    // near miss: five arguments but not a data package
                    arg_stra(&mut p, "FLDA");
                    arg_u32(&mut p, serial);
                    arg_u32(&mut p, 1);
                    arg_raw(&mut p, &[1, 2, 3]);
                    arg_stra(&mut p, if v % 8 == 3 { "FLDB" } else { "FLD" });
                    noar = 5;
                }
            }
            d.payload = p;
            // mostly the usual SYS/FILE; sometimes the other contexts of that application or the same context of another one
            let (apid, ctid): (&[u8; 4], &[u8; 4]) = match (v / 1024) % 5 {
                0 | 1 | 2 => (b"SYS\0", b"FILE"),
                3 => (b"SYS\0", b"JOUR"),
                _ => (b"APP1", b"FILE"),
            };
            d.extended_header = ext(0x01 | (4 << 4), noar, apid, ctid);
        }
        7 => {
            // segmented SOME/IP network trace: NWST (announcement), NWCH (chunk), NWEN (end); few segment ids so that sequences link up
            let mut p = vec![];
            let id = (v / 3) % 3;
            let noar;
            match v % 3 {
                0 => {
                    arg_stra(&mut p, "NWST");
                    arg_raw(&mut p, &id.to_le_bytes());
                    arg_raw(&mut p, &vec![1u8; [9usize, 10, 12, 5][((v / 9) % 4) as usize]]);
                    arg_raw(&mut p, &[0]);
                    let cnt = [0u16, 1, 2, 3, 0xffff, 1000, 2, 2][((v / 36) % 8) as usize];
                    if (v / 288) % 7 == 0 { arg_raw(&mut p, &[cnt as u8]); } else { arg_raw(&mut p, &cnt.to_le_bytes()); }
                    let cs = [0u16, 1, 4, 16, 0xffff, 4, 16, 4][((v / 2016) % 8) as usize];
                    arg_raw(&mut p, &cs.to_le_bytes());
                    noar = 6;
                }
                1 => {
                    arg_stra(&mut p, "NWCH");
                    arg_raw(&mut p, &id.to_le_bytes());
                    arg_raw(&mut p, &(((v / 9) % 4) as u16).to_le_bytes());
                    arg_raw(&mut p, &vec![(v % 251) as u8; [1usize, 4, 16, 3, 20][((v / 36) % 5) as usize]]);
                    noar = 4;
                }
                _ => {
                    arg_stra(&mut p, "NWEN");
                    arg_raw(&mut p, &id.to_le_bytes());
                    noar = 2;
                }
            }
            d.payload = p;
            d.extended_header = ext(0x01 | (2 << 1) | (1 << 4), noar, b"SOME", b"TC\0\0");
        }
        _ => {}
    }
    d.standard_header.len = (4 + 4 + if d.standard_header.has_timestamp() { 4 } else { 0 } + if d.extended_header.is_some() { 10 } else { 0 } + d.payload.len()) as u16;
    if d.extended_header.is_some() {
        d.standard_header.htyp |= 1;
    } else {
        d.standard_header.htyp &= !1;
    }
    d
}

pub fn plugin_cfg(p: u8) -> String {
    match p {
        P_NONVERBOSE => r#"{"name":"NonVerbose","enabled":true,"fibexDir":"/repo/tests"}"#.to_string(),
        P_SOMEIP => r#"{"name":"SomeIp","enabled":true,"fibexDir":"/repo/tests"}"#.to_string(),
        P_CAN => r#"{"name":"CAN","enabled":true,"fibexDir":"/repo/tests"}"#.to_string(),
        P_MUNIIC => r#"{"name":"Muniic","enabled":true,"jsonDir":"/repo/tests/muniic"}"#.to_string(),
        P_REWRITE => crate::plug::rewrite_cfg(),
        P_FILETRANSFER_DROP => crate::plug::file_transfer_cfg(false),
        P_FT_DROP_APID => r#"{"name":"FileTransfer","enabled":true,"allowSave":false,"keepFLDA":false,"apid":"SYS"}"#.to_string(),
        P_FT_DROP_BOTH => r#"{"name":"FileTransfer","enabled":true,"allowSave":false,"keepFLDA":false,"apid":"SYS","ctid":"FILE"}"#.to_string(),
        P_FT_DROP_CTID => r#"{"name":"FileTransfer","enabled":true,"allowSave":false,"keepFLDA":false,"ctid":"FILE"}"#.to_string(),
        _ => crate::plug::file_transfer_cfg(true),
    }
}

fn run_plugins(msgs: &[PMsg], plugins: &[u8], sched: &SchedCfg, ctx: &mut Ctx) -> Result<(), Violation> {
    let input: Vec<DltMessage> = msgs.iter().enumerate().map(|(i, m)| {
        let mut d = build(m, i as u32);
        d.lifecycle = 1 + (m.t.boot as u32 % 3);
        d
    }).collect();
    ctx.sig.u64(input.len() as u64);
    for p in plugins {
        ctx.sig.u64(*p as u64);
    }
    for m in msgs.iter().take(40) {
        ctx.sig.u64(m.special as u64 ^ ((m.variant as u64) << 8));
    }
    ctx.sig.u64(sched.seed);
    for m in msgs {
        match m.special {
            1 => ctx.probe("traffic_nonverbose_frames"),
            2 => ctx.probe("traffic_someip"),
            3 => ctx.probe("traffic_can"),
            4 => ctx.probe("traffic_muniic"),
            5 => ctx.probe("traffic_rewrite_target"),
            6 => ctx.probe("traffic_file_transfer"),
            7 => ctx.probe("traffic_someip_segmented"),
            _ => {}
        }
    }
    let cfgs: Vec<String> = plugins.iter().map(|p| plugin_cfg(*p)).collect();
    let res = sh::slot((Vec::<DltMessage>::new(), false, 0usize));
    let res2 = res.clone();
    let inp = std::sync::Arc::new(input.clone());
    let np = plugins.len();
    sh::run(sched, ctx, move || {
        let plugins: Vec<Box<dyn Plugin + Send>> = crate::pipes::build_plugins(&cfgs);
        let built = plugins.len();
        let (tx0, rx0) = sstd::sync::mpsc::sync_channel::<DltMessage>(1024);
        let (tx1, rx1) = sstd::sync::mpsc::sync_channel::<DltMessage>(1024);
        let st = sstd::thread::spawn(move || adlt::plugins::plugins_process_msgs(rx0, &|m| sync_sender_send_delay_if_full(m, &tx1), plugins).is_ok());
        let ct = sstd::thread::spawn(move || rx1.iter().collect::<Vec<DltMessage>>());
        let inp2 = inp.clone();
        let pt = sstd::thread::spawn(move || {
            for m in inp2.iter() {
                if sync_sender_send_delay_if_full(m.clone(), &tx0).is_err() {
                    break;
                }
            }
        });
        pt.join().unwrap();
        let ok = st.join().unwrap();
        let got = ct.join().unwrap();
        *res2.lock().unwrap() = (got, ok, built);
    })?;
    let (got, ok, built) = res.lock().unwrap().clone();
    if built != np {
        viol!("plugin-config-rejected", "{} of {} plugins could be constructed from the repository's descriptions", built, np);
    }
    if !ok {
        viol!("plugin-stage-error", "stage returned an error although the consumer stayed");
    }
    // only file-transfer data packages may be dropped, and only when the plugin is configured so
    // (a restricted plugin only for the messages of its application/context)
    let sys = adlt::dlt::DltChar4::from_buf(b"SYS\0");
    let file = adlt::dlt::DltChar4::from_buf(b"FILE");
    let drop_flda = |m: &DltMessage| {
        plugins.iter().any(|p| match *p {
            P_FILETRANSFER_DROP => true,
            P_FT_DROP_APID => m.apid() == Some(&sys),
            P_FT_DROP_BOTH => m.apid() == Some(&sys) && m.ctid() == Some(&file),
            P_FT_DROP_CTID => m.ctid() == Some(&file),
            _ => false,
        })
    };
    let droppable = |m: &DltMessage| drop_flda(m) && m.is_verbose() && m.noar() == 5 && m.mstp() == adlt::dlt::DltMessageType::Log(adlt::dlt::DltMessageLogType::Info) && adlt::plugins::file_transfer::FileTransferPlugin::is_type(m, "FLDA");
    let n_in = input.len();
    let (input, msgs): (Vec<DltMessage>, Vec<PMsg>) = input.into_iter().zip(msgs.iter().cloned()).filter(|(m, _)| !droppable(m)).unzip();
    let msgs = &msgs[..];
    ctx.probe_n("flda_packages_dropped_as_configured", (n_in - input.len()) as u64);
    if got.len() != input.len() {
        let first = input.iter().zip(got.iter()).position(|(a, b)| a.index != b.index).unwrap_or(std::cmp::min(input.len(), got.len()));
        viol!("plugin-stage-count", "{} messages in, {} expected out ({} data packages dropped as configured), {} out; first difference at output position {} (plugins {:?})", n_in, input.len(), n_in - input.len(), got.len(), first, plugins);
    }
    let rewrite = plugins.contains(&P_REWRITE);
    let mut text_changed = 0;
    let mut ext_added = 0;
    let mut ts_changed = 0;
    for (i, (a, b)) in input.iter().zip(got.iter()).enumerate() {
        if a.index != b.index {
            viol!("plugin-stage-order", "position {}: message {} out, message {} in", i, b.index, a.index);
        }
        if a.reception_time_us != b.reception_time_us || a.ecu != b.ecu || a.payload != b.payload || a.lifecycle != b.lifecycle || a.standard_header.mcnt != b.standard_header.mcnt {
            viol!("plugin-altered-protected-field", "message {} (special {} variant {}): reception time/ECU/payload bytes/lifecycle/counter changed (plugins {:?})", i, msgs[i].special, msgs[i].variant, plugins);
        }
        if a.timestamp_dms != b.timestamp_dms {
            ts_changed += 1;
            if !rewrite {
                viol!("plugin-altered-timestamp", "message {}: timestamp changed without the rewrite plugin (plugins {:?})", i, plugins);
            }
        }
        if a.extended_header != b.extended_header {
            if a.extended_header.is_some() {
                viol!("plugin-altered-extended-header", "message {}: an existing extended header was changed (plugins {:?})", i, plugins);
            }
            ext_added += 1;
        }
        if a.payload_text != b.payload_text {
            text_changed += 1;
        }
    }
    ctx.probe_n("text_changed", text_changed);
    ctx.probe_n("extended_header_added", ext_added);
    ctx.probe_n("timestamp_rewritten", ts_changed);
    ctx.event_u64(text_changed);
    ctx.nontrivial = !plugins.is_empty() && input.len() > 1;
    Ok(())
}

fn id_name(prefix: u8, n: u32) -> [u8; 4] {
    // distinct 4-byte ids: some short, some full length
    let s = format!("{}{:03}", prefix as char, n % 1000);
    let b = s.as_bytes();
    let mut x = [b[0], b[1], b[2], b[3]];
    if n >= 1000 {
        x[0] = b'a' + ((n / 1000) % 26) as u8;
    }
    if n % 17 == 0 {
        x[3] = 0;
        x[2] = b'0' + ((n / 17) % 10) as u8;
        x[1] = b'A' + ((n / 170) % 26) as u8;
    }
    x
}

fn run_anon(trace: &[TMsg], n_ecus: u32, n_apids: u32, n_ctids: u32, ctx: &mut Ctx) -> Result<(), Violation> {
    // id population: ecu/apid/ctid of each message drawn from populations of the given sizes
    let orig: Vec<DltMessage> = trace
        .iter()
        .enumerate()
        .map(|(i, t)| {
            let mut d = t.to_dlt(i as u32);
            let e = (t.ecu as u32 + (t.n % std::cmp::max(1, n_ecus / 4 + 1)) * 4) % std::cmp::max(1, n_ecus);
            if n_ecus > 4 {
                d.ecu = DltChar4::from_buf(&id_name(b'E', e * 3 + 1));
            }
            if let Some(x) = d.extended_header.as_mut() {
                // every second control message shares the ids of the applications (a set-log-level request/response sent
                // under the application's own ids), the others keep the daemon's
                if t.kind == K_LOG || t.kind == K_NONVERB || t.n % 2 == 0 {
                    x.apid = DltChar4::from_buf(&id_name(b'P', (t.n.wrapping_mul(7)) % std::cmp::max(1, n_apids)));
                    x.ctid = DltChar4::from_buf(&id_name(b'Q', (t.n.wrapping_mul(13)) % std::cmp::max(1, n_ctids)));
                }
            }
            d
        })
        .collect();
    ctx.sig.u64(orig.len() as u64 ^ ((n_ecus as u64) << 32) ^ ((n_apids as u64) << 44));
    for m in trace.iter().take(40) {
        ctx.sig.u64(m.rx_us ^ m.n as u64);
    }
    let mut plugin = adlt::plugins::anonymize::AnonymizePlugin::new("anon");
    let mut anon = vec![];
    for m in orig.iter() {
        let mut a = m.clone();
        if !plugin.process_msg(&mut a) {
            viol!("anon-dropped", "anonymisation dropped message {}", m.index);
        }
        anon.push(a);
    }
    let mut ecu_map: HashMap<[u8; 4], [u8; 4]> = HashMap::new();
    let mut ecu_rev: HashMap<[u8; 4], [u8; 4]> = HashMap::new();
    let mut apid_map: HashMap<([u8; 4], [u8; 4]), [u8; 4]> = HashMap::new();
    let mut apid_rev: HashMap<([u8; 4], [u8; 4]), [u8; 4]> = HashMap::new();
    let mut ctid_map: HashMap<([u8; 4], [u8; 4], [u8; 4]), [u8; 4]> = HashMap::new();
    let mut ctid_rev: HashMap<([u8; 4], [u8; 4], [u8; 4]), [u8; 4]> = HashMap::new();
    for (i, (o, a)) in orig.iter().zip(anon.iter()).enumerate() {
        if o.index != a.index || o.reception_time_us != a.reception_time_us || o.timestamp_dms != a.timestamp_dms || o.standard_header.has_timestamp() != a.standard_header.has_timestamp() {
            viol!("anon-altered-time", "message {}: index/reception time/timestamp changed", i);
        }
        if o.is_ctrl_request() != a.is_ctrl_request() || o.extended_header.is_some() != a.extended_header.is_some() {
            viol!("anon-altered-kind", "message {}: message kind changed", i);
        }
        let (oe, ae) = (*o.ecu.as_buf(), *a.ecu.as_buf());
        if let Some(p) = ecu_map.insert(oe, ae) {
            if p != ae {
                viol!("anon-ecu-not-functional", "ECU {:?} mapped to {:?} and {:?}", oe, p, ae);
            }
        }
        if let Some(p) = ecu_rev.insert(ae, oe) {
            if p != oe {
                viol!("anon-ecu-not-injective", "ECUs {:?} and {:?} both mapped to {:?} ({} distinct ECUs in the trace)", p, oe, ae, ecu_map.len());
            }
        }
        if let (Some(ox), Some(ax)) = (&o.extended_header, &a.extended_header) {
            let (oa, aa) = (*ox.apid.as_buf(), *ax.apid.as_buf());
            if let Some(p) = apid_map.insert((oe, oa), aa) {
                if p != aa {
                    viol!("anon-apid-not-functional", "APID {:?} of ECU {:?} mapped to {:?} and {:?}", oa, oe, p, aa);
                }
            }
            if let Some(p) = apid_rev.insert((oe, aa), oa) {
                if p != oa {
                    viol!("anon-apid-not-injective", "APIDs {:?} and {:?} of ECU {:?} both mapped to {:?}", p, oa, oe, aa);
                }
            }
            let (oc, ac) = (*ox.ctid.as_buf(), *ax.ctid.as_buf());
            if let Some(p) = ctid_map.insert((oe, oa, oc), ac) {
                if p != ac {
                    viol!("anon-ctid-not-functional", "CTID {:?} of {:?}/{:?} mapped to {:?} and {:?}", oc, oe, oa, p, ac);
                }
            }
            if let Some(p) = ctid_rev.insert((oe, oa, ac), oc) {
                if p != oc {
                    viol!("anon-ctid-not-injective", "CTIDs {:?} and {:?} of {:?}/{:?} both mapped to {:?}", p, oc, oe, oa, ac);
                }
            }
        }
    }
    ctx.probe_n("distinct_ecus", ecu_map.len() as u64);
    ctx.probe_n("distinct_apids", apid_map.len() as u64);
    if ecu_map.len() > 100 || apid_map.len() > 100 {
        ctx.probe("large_id_population");
    }
    // lifecycles on the anonymised trace: same partition, boundaries and counts
    let r1 = run_stage(vec![orig.clone()], ctx)?;
    let r2 = run_stage(vec![anon.clone()], ctx)?;
    if r1.out.len() != r2.out.len() {
        viol!("anon-lifecycle-count", "{} vs {} messages forwarded", r1.out.len(), r2.out.len());
    }
    let c1 = crate::pipes::canonical_ids(&r1.out);
    let c2 = crate::pipes::canonical_ids(&r2.out);
    for (i, (a, b)) in r1.out.iter().zip(r2.out.iter()).enumerate() {
        if c1[&a.lifecycle] != c2[&b.lifecycle] {
            viol!("anon-lifecycle-partition", "message {}: lifecycle #{} on the original, #{} on the anonymised trace", i, c1[&a.lifecycle], c2[&b.lifecycle]);
        }
    }
    let t1: BTreeMap<u32, (u32, u64, u64)> = r1.table.iter().filter_map(|l| c1.get(&l.id).map(|c| (*c, (l.nr_msgs, l.start, l.end)))).collect();
    let t2: BTreeMap<u32, (u32, u64, u64)> = r2.table.iter().filter_map(|l| c2.get(&l.id).map(|c| (*c, (l.nr_msgs, l.start, l.end)))).collect();
    if t1 != t2 {
        viol!("anon-lifecycle-boundaries", "lifecycle boundaries/counts differ: {:?} vs {:?}", t1, t2);
    }
    ctx.event_u64(t1.len() as u64);
    ctx.nontrivial = orig.len() > 1;
    Ok(())
}

pub struct C19;
impl Check for C19 {
    type Case = Case;
    const ID: &'static str = "C19";
    fn runs(t: Tier) -> u64 {
        t.pick(20_000, 800_000)
    }
    fn generate(rng: &mut Rng, _tier: Tier, idx: u64) -> Case {
        let mut k = rng.sub("knobs");
        if idx % 4 == 3 {
            let max_msgs = match k.below(4) {
                0 => k.urange(5, 60),
                1 => k.urange(60, 300),
                _ => k.urange(300, 1500),
            };
            let mut knobs = WorldKnobs::gen(&mut k, max_msgs);
            knobs.n_ecus = std::cmp::max(knobs.n_ecus, 2);
            let (trace, _) = gen_world(&mut rng.sub("world"), &knobs);
            let big = k.chance(1, 4);
            Case::Anon {
                trace,
                n_ecus: if big { k.range(100, 999) as u32 } else { k.range(1, 12) as u32 },
                n_apids: if big { k.range(100, 999) as u32 } else { k.range(1, 30) as u32 },
                n_ctids: if k.chance(1, 4) { k.range(100, 999) as u32 } else { k.range(1, 30) as u32 },
            }
        } else {
            let max_msgs = k.urange(5, 120);
            let mut knobs = WorldKnobs::gen(&mut k, max_msgs);
            knobs.f_suspend = false;
            let (mut trace, _) = gen_world(&mut rng.sub("world"), &knobs);
            trace.truncate(120);
            let mut sp = rng.sub("special");
            let msgs: Vec<PMsg> = trace
                .into_iter()
                .map(|t| {
                    let special = if sp.chance(1, 2) { 0 } else { 1 + sp.below(7) as u8 };
                    PMsg { t, special, variant: sp.u32() }
                })
                .collect();
            // all subsets and orders
            let mut all = vec![P_NONVERBOSE, P_SOMEIP, P_CAN, P_MUNIIC, P_REWRITE, P_FILETRANSFER_KEEP, P_FILETRANSFER_DROP];
            // at most one of the restricted file transfer plugins (instead of the unrestricted dropping one)
            if k.chance(1, 3) {
                all.retain(|p| *p != P_FILETRANSFER_DROP);
                all.push(P_FT_DROP_APID + k.below(3) as u8);
            }
            k.shuffle(&mut all);
            let n = k.urange(1, all.len());
            all.truncate(n);
            Case::Plugins { msgs, plugins: all, sched: SchedCfg::gen(&mut rng.sub("sched")) }
        }
    }
    fn run(c: &Case, ctx: &mut Ctx) -> Result<(), Violation> {
        match c {
            Case::Plugins { msgs, plugins, sched } => {
                ctx.sig.u64(1);
                run_plugins(msgs, plugins, sched, ctx)
            }
            Case::Anon { trace, n_ecus, n_apids, n_ctids } => {
                ctx.sig.u64(2);
                if *n_ecus > 999 || *n_apids > 999 || *n_ctids > 999 {
                    return Ok(());
                }
                run_anon(trace, *n_ecus, *n_apids, *n_ctids, ctx)
            }
        }
    }
    fn shrink(c: &Case) -> Vec<Case> {
        let mut out = vec![];
        match c {
            Case::Plugins { msgs, plugins, sched } => {
                for m in shrink_vec(msgs) {
                    out.push(Case::Plugins { msgs: m, plugins: plugins.clone(), sched: sched.clone() });
                }
                for p in shrink_vec(plugins) {
                    if !p.is_empty() {
                        out.push(Case::Plugins { msgs: msgs.clone(), plugins: p, sched: sched.clone() });
                    }
                }
                if !matches!(sched.kind, SchedKind::RoundRobin) {
                    let mut s = sched.clone();
                    s.kind = SchedKind::RoundRobin;
                    s.caps = vec![1024];
                    out.push(Case::Plugins { msgs: msgs.clone(), plugins: plugins.clone(), sched: s });
                }
            }
            Case::Anon { trace, n_ecus, n_apids, n_ctids } => {
                for t in shrink_vec(trace) {
                    out.push(Case::Anon { trace: t, n_ecus: *n_ecus, n_apids: *n_apids, n_ctids: *n_ctids });
                }
                for (a, b, cc) in [(1, *n_apids, *n_ctids), (*n_ecus, 1, *n_ctids), (*n_ecus, *n_apids, 1), (n_ecus / 2 + 1, n_apids / 2 + 1, n_ctids / 2 + 1)] {
                    if (a, b, cc) != (*n_ecus, *n_apids, *n_ctids) {
                        out.push(Case::Anon { trace: trace.clone(), n_ecus: a, n_apids: b, n_ctids: cc });
                    }
                }
            }
        }
        out
    }
    fn finding_key(_c: &Case, v: &Violation) -> Option<String> {
        crate::lc::lc_finding_key(v)
    }
    fn rule() -> &'static str {
        "two kinds of runs: (plugins) simulated traffic (<= 120 messages) in which half of the messages are shaped to hit the plugins (non-verbose frames of the repository's FIBEX for ECU 'Ecu1' incl. unknown ids/short payloads/missing extended header, SOME/IP and CAN network traces with known/unknown service/frame ids and truncated headers, segmented SOME/IP sequences (NWST/NWCH/NWEN with chunk counts/sizes {0,1,..,0xffff}, out-of-order and orphan chunks), Muniic MMSG/MDLT, SYS/JOUR rewrite targets incl. huge timestamps) through the real plugin stage as a shuttle thread between bounded channels with a random non-empty subset and order of {non-verbose, SOME/IP, CAN, Muniic, rewrite, file transfer(keepFLDA), file transfer(dropping FLDA; in a third of the runs restricted to application SYS, to SYS/FILE or to context FILE)}; traffic includes FLST/FLDA/FLFI messages of SYS/FILE, SYS/JOUR and APP1/FILE and near misses, and the expected output is the input minus exactly the data packages that a configured dropping plugin is responsible for; (anon) a simulated world (<= 1500 messages) with ECU/APID/CTID populations of 1-999 ids (every second control message shares the application ids) through the real anonymiser, then lifecycle detection on both traces; non-trivial = plugins active and more than one message; distinct = hash of the case"
    }
    fn assumptions() -> Vec<&'static str> {
        vec![
            "plugins are configured from /repo/tests (fibex1.xml, non_verbose*.xml, muniic/min.json) and the rewrite example config",
            "pseudonym scopes: ECU global, APID per ECU, CTID per (ECU, APID); populations up to the pseudonym capacity of 999",
        ]
    }
    fn real_components() -> Vec<&'static str> {
        vec!["adlt::plugins::plugins_process_msgs", "NonVerbosePlugin, SomeipPlugin, CanPlugin, MuniicPlugin, RewritePlugin, FileTransferPlugin (via factory)", "adlt::plugins::anonymize::AnonymizePlugin", "adlt::lifecycle::parse_lifecycles_buffered_from_stream"]
    }
    fn stub_components() -> Vec<&'static str> {
        vec!["traffic generator", "producer/consumer threads, scheduler, channels"]
    }
    fn required_reach() -> Vec<&'static str> {
        vec!["text_changed", "extended_header_added", "timestamp_rewritten", "traffic_someip", "traffic_can", "traffic_muniic", "traffic_file_transfer", "traffic_someip_segmented", "flda_packages_dropped_as_configured", "large_id_population", "try_send_full"]
    }
}
