//! C06 (published before delivered) and C13 (bounded channels never lose/reorder) on E3.

use crate::fw::{Check, Ctx, Tier, Violation};
use crate::lc::{gen_trace_case, record_world, shrink_trace_case, TraceCase};
use crate::pipes::*;
use crate::rng::Rng;
use crate::sh::{SchedCfg, SchedKind};
use crate::viol;
use crate::world::*;
use adlt::dlt::DltMessage;
use serde::{Deserialize, Serialize};
use std::collections::HashSet;

#[derive(Clone, Debug, Serialize, Deserialize)]
pub struct PipeCase {
    pub t: TraceCase,
    pub pipe: PipeCfg,
    pub sched: SchedCfg,
    /// C13 only: the pipeline as wired by remote.rs; the consumer (server loop) leaves through `close`
    #[serde(default)]
    pub remote: Option<RemoteLeg>,
}

#[derive(Clone, Debug, Serialize, Deserialize)]
pub struct RemoteLeg {
    pub sort: bool,
    pub collect: String,
    pub wait1: usize,
    pub pause: bool,
    pub wait2: usize,
    /// instead of closing early: let everything be parsed and compare the lifecycle table the client
    /// accumulated from the server's incremental updates with the table of an unbounded reference run
    #[serde(default)]
    pub full: bool,
    /// full runs: a query and a stream over everything are requested straight after the open (while
    /// the pipeline is still producing); both have to deliver every message, in the same sequence
    #[serde(default)]
    pub query: bool,
}

/// remote.rs wiring (parse -> lifecycle -> plugins -> [sort] -> server loop) with overridden channel
/// bounds: `close` at an arbitrary moment must complete (every stage terminates) and a re-open works
fn run_remote_leg(c: &PipeCase, r: &RemoteLeg, ctx: &mut Ctx) -> Result<(), Violation> {
    use crate::remotesim::{run_session, Cmd, Session};
    let mut trace = c.t.trace.clone();
    if trace.is_empty() {
        trace.push(TMsg { ecu: 0, boot: 0, rx_us: WALL_BASE_US, ts: 1, has_ts: true, kind: K_LOG, app: 0, mcnt: 0, n: 1, flags: 0 });
    }
    // the full run needs a mode that parses without further commands (one_pass_streams starts paused)
    let collect = if r.full { "true".to_string() } else { r.collect.clone() };
    let open = Cmd::Open { variant: 0, sort: r.sort, collect };
    let mut cmds = vec![open.clone()];
    let n_msgs = trace.len();
    if r.full && r.query {
        let body = format!(r#"{{"window":[0,{}],"binary":true}}"#, n_msgs + 10);
        cmds.push(Cmd::Stream { query: true, body: body.clone() });
        cmds.push(Cmd::Stream { query: false, body });
    }
    cmds.push(Cmd::Wait(r.wait1));
    if r.full {
        cmds.push(Cmd::WaitParsed);
        cmds.push(Cmd::Wait(300));
        cmds.push(Cmd::Close);
    } else {
        if r.pause {
            cmds.push(Cmd::Pause);
        }
        cmds.push(Cmd::Close);
        cmds.push(open);
        cmds.push(Cmd::Wait(r.wait2));
        cmds.push(Cmd::Close);
    }
    let mut sc = c.sched.clone();
    sc.max_steps = 8_000_000;
    let session = Session { trace, cmds, sched: sc, server_max_read: 0, poll_budget: 30_000 };
    ctx.cfg("consumer_disappears");
    ctx.fired("consumer_disappears");
    ctx.probe("remote_wiring_close_runs");
    let t = run_session(&session, ctx).map_err(|v| {
        if v.class == "deadlock" || v.class == "step-bound" {
            Violation::new("stages-blocked-after-close", format!("remote.rs pipeline (sort={}, collect={}): close after {} polls: {}", r.sort, r.collect, r.wait1, v.detail))
        } else {
            v
        }
    })?;
    crate::c15::check_transcript(&session, &t, ctx)?;
    if r.full {
        // what a client that follows the incremental lifecycle updates ends up with
        let mut view: std::collections::BTreeMap<u32, (u32, u32, u64, u64)> = Default::default();
        for e in t.events.iter() {
            if let crate::remotesim::Ev::Lifecycles(l) = e {
                for (id, ecu, n, st, en) in l {
                    view.insert(*id, (*ecu, *n, *st, *en));
                }
            }
        }
        let reference = crate::lc::run_stage(vec![to_dlts(&session.trace, 0)], ctx)?;
        let mut want: Vec<(u32, u32, u64, u64)> = reference.table.iter().filter(|l| !l.only_control_requests).map(|l| (u32::from_le_bytes(l.ecu), l.nr_msgs, l.resume_start, l.end)).collect();
        let mut got: Vec<(u32, u32, u64, u64)> = view.values().cloned().collect();
        want.sort();
        got.sort();
        // every lifecycle of the final table must have reached the client in its final state ...
        let mut rest = got.clone();
        let mut all_present = true;
        for w in &want {
            match rest.iter().position(|g| g == w) {
                Some(p) => {
                    rest.remove(p);
                }
                None => all_present = false,
            }
        }
        if all_present && !rest.is_empty() {
            // ... and nothing else: a lifecycle that was published, sent, and merged away afterwards is never
            // withdrawn (the update protocol has no removal), so the client keeps listing it
            viol!("remote-client-keeps-merged-lifecycle", "remote.rs pipeline (sort={}): the client was sent lifecycle(s) {:?} (ecu, msgs, start, end) which were merged away later; the final table is {:?} but nothing tells the client to drop them", r.sort, rest, want);
        }
        if got != want {
            viol!("remote-lifecycle-updates-stale", "remote.rs pipeline (sort={}, collect={}): the lifecycle table a client accumulates from the server's updates (ecu, msgs, start, end) {:?} differs from the table of the unbounded reference run {:?}", r.sort, r.collect, got, want);
        }
        ctx.probe("remote_lifecycle_updates_compared");
        if r.query {
            // cmd 1 = query, cmd 2 = stream
            let id_of = |cmd: usize| t.events.iter().find_map(|e| if let crate::remotesim::Ev::Reply { cmd_no, text } = e { if *cmd_no == cmd { crate::remotesim::announced_id(text) } else { None } } else { None });
            let collect_of = |id: Option<u32>| -> (Vec<u32>, bool) {
                let mut v = vec![];
                let mut ended = false;
                for e in t.events.iter() {
                    if let crate::remotesim::Ev::Msgs { id: i, msgs } = e {
                        if Some(*i) == id {
                            if msgs.is_empty() {
                                ended = true;
                            }
                            v.extend(msgs.iter().map(|m| m.index));
                        }
                    }
                }
                (v, ended)
            };
            let (q, q_ended) = collect_of(id_of(1));
            let (st, _) = collect_of(id_of(2));
            if st.len() != n_msgs {
                viol!("remote-stream-count", "remote.rs pipeline (sort={}): a stream over everything requested straight after the open delivered {} of {} messages although parsing finished long ago", r.sort, st.len(), n_msgs);
            }
            if !r.sort && st.iter().enumerate().any(|(i, x)| *x as usize != i) {
                viol!("remote-stream-order", "remote.rs pipeline (unsorted): the stream does not deliver the messages in file order: {:?}...", &st[..std::cmp::min(12, st.len())]);
            }
            if q != st {
                let first = q.iter().zip(st.iter()).position(|(a, b)| a != b).unwrap_or(std::cmp::min(q.len(), st.len()));
                viol!("remote-query-differs-from-stream", "remote.rs pipeline (sort={}): a query over everything requested while the pipeline was still producing delivered {} messages (end marker: {}), the stream requested at the same time {}; first difference at position {}", r.sort, q.len(), q_ended, st.len(), first);
            }
            if !q_ended {
                viol!("remote-query-not-terminated", "remote.rs pipeline (sort={}): the query got no end marker although parsing finished long ago", r.sort);
            }
            ctx.probe("remote_query_vs_stream_compared");
        }
    }
    ctx.event_u64(t.events.len() as u64);
    ctx.nontrivial = session.trace.len() > 1;
    Ok(())
}

pub fn simple_filters(rng: &mut Rng) -> Vec<String> {
    let mut v = vec![];
    let n = rng.urange(1, 3);
    for _ in 0..n {
        let kind = rng.below(2);
        let f = match rng.below(4) {
            0 => format!(r#"{{"type":{},"ecu":"ECU{}"}}"#, kind, rng.below(2)),
            1 => format!(r#"{{"type":{},"apid":"APP{}"}}"#, kind, 1 + rng.below(2)),
            2 => format!(r#"{{"type":{},"ctid":"CTX1","not":{}}}"#, kind, rng.bool()),
            _ => format!(r#"{{"type":{},"logLevelMax":{}}}"#, kind, 1 + rng.below(6)),
        };
        v.push(f);
    }
    v
}

fn shrink_pipe_case(c: &PipeCase) -> Vec<PipeCase> {
    let mut out = vec![];
    for t in shrink_trace_case(&c.t) {
        let mut t = t;
        t.split = 0;
        out.push(PipeCase { t, ..c.clone() });
    }
    if !matches!(c.sched.kind, SchedKind::RoundRobin) {
        let mut s = c.sched.clone();
        s.kind = SchedKind::RoundRobin;
        out.push(PipeCase { sched: s, ..c.clone() });
    }
    for cap in [1usize, 0, 1024] {
        if c.sched.caps != vec![cap] {
            let mut s = c.sched.clone();
            s.caps = vec![cap];
            out.push(PipeCase { sched: s, ..c.clone() });
        }
    }
    if !c.pipe.producer_stalls.is_empty() || !c.pipe.consumer_stalls.is_empty() {
        let mut p = c.pipe.clone();
        p.producer_stalls.clear();
        p.consumer_stalls.clear();
        out.push(PipeCase { pipe: p, ..c.clone() });
    }
    if c.pipe.poller {
        let mut p = c.pipe.clone();
        p.poller = false;
        out.push(PipeCase { pipe: p, ..c.clone() });
    }
    if c.pipe.sort.is_some() {
        let mut p = c.pipe.clone();
        p.sort = None;
        out.push(PipeCase { pipe: p, ..c.clone() });
    }
    if !c.pipe.filters.is_empty() {
        let mut p = c.pipe.clone();
        p.filters.clear();
        out.push(PipeCase { pipe: p, ..c.clone() });
    }
    if c.pipe.consumer_drop_after.is_some() {
        let mut p = c.pipe.clone();
        p.consumer_drop_after = None;
        out.push(PipeCase { pipe: p, ..c.clone() });
    }
    out
}

fn record_sched(c: &PipeCase, ctx: &mut Ctx) {
    ctx.sig.u64(c.sched.seed);
    ctx.sig.u64(c.sched.caps.iter().fold(7u64, |a, b| a.wrapping_mul(31).wrapping_add(*b as u64)));
    ctx.cfg("small_channel_capacity");
    if c.sched.caps.iter().any(|x| *x <= 2) {
        ctx.fired("small_channel_capacity");
    }
    if !c.pipe.producer_stalls.is_empty() {
        ctx.cfg("producer_stall");
        ctx.fired("producer_stall");
    }
    if !c.pipe.consumer_stalls.is_empty() {
        ctx.cfg("consumer_stall");
        ctx.fired("consumer_stall");
    }
}

// ---------------------------------------------------------------------------------------------

pub struct C06;
impl Check for C06 {
    type Case = PipeCase;
    const ID: &'static str = "C06";
    fn runs(t: Tier) -> u64 {
        t.pick(60_000, 3_000_000)
    }
    fn generate(rng: &mut Rng, tier: Tier, idx: u64) -> PipeCase {
        let mut t = gen_trace_case(rng, tier, idx % 2 == 1);
        t.split = 0;
        if t.trace.len() > 150 {
            t.trace.truncate(150);
        }
        let mut k = rng.sub("pipe");
        let (ps, cs) = PipeCfg::gen_pacing(&mut k, t.trace.len());
        let pipe = PipeCfg {
            sort: if k.chance(1, 4) { Some((3, 2_000_000)) } else { None },
            filters: vec![],
            plugins: vec![],
            producer_stalls: ps,
            consumer_stalls: cs,
            consumer_drop_after: if k.chance(1, 10) { Some(k.usize(t.trace.len() + 1)) } else { None },
            poller: k.chance(1, 2),
        };
        let sched = SchedCfg::gen(&mut rng.sub("sched"));
        PipeCase { t, pipe, sched, remote: None }
    }
    fn run(c: &PipeCase, ctx: &mut Ctx) -> Result<(), Violation> {
        record_world(&c.t, ctx);
        record_sched(c, ctx);
        let msgs = to_dlts(&c.t.trace, c.t.index_base);
        let r = run_pipeline(msgs, &c.pipe, &c.sched, ctx)?;
        ctx.event_u64(r.delivered.len() as u64);
        ctx.event_u64(r.table.len() as u64);
        ctx.probe_n("delivery_points_checked", r.lc_stage_delivered as u64);
        ctx.probe_n("poller_polls", r.polls as u64);
        ctx.probe_n("lifecycles_in_table", r.table.len() as u64);
        if let Some((idx, lc)) = r.invisible_at_stage.first() {
            viol!("unpublished-lifecycle-at-delivery", "message {} left lifecycle detection with lifecycle {} not (or with another ECU) visible in the shared table; {} such messages", idx, lc, r.invisible_at_stage.len());
        }
        if let Some((idx, lc)) = r.invisible_at_consumer.first() {
            viol!("unpublished-lifecycle-at-consumer", "consumer thread received message {} whose lifecycle {} is not visible; {} such messages", idx, lc, r.invisible_at_consumer.len());
        }
        if let Some(lc) = r.disappeared.first() {
            viol!("lifecycle-disappeared", "polling reader found lifecycle {} of an already delivered message missing", lc);
        }
        ctx.nontrivial = r.lc_stage_delivered > 1;
        Ok(())
    }
    fn shrink(c: &PipeCase) -> Vec<PipeCase> {
        shrink_pipe_case(c)
    }
    fn finding_key(_c: &PipeCase, v: &Violation) -> Option<String> {
        crate::lc::lc_finding_key(v)
    }
    fn rule() -> &'static str {
        "one run = one simulated world (as C05, <= 150 messages) pushed by a producer thread through the real lifecycle stage (optionally followed by the sort stage) to a consumer thread over channels whose capacities (0/1/2/small/1024) and pacing are drawn per run, under one seeded shuttle schedule (random, PCT depth 1-4 or round robin); the shared table is looked up at every delivery point in the stage's thread, on receipt in the consumer thread and by a third polling thread; non-trivial = more than one message delivered; distinct = hash of (world, scheduler seed, capacities)"
    }
    fn assumptions() -> Vec<&'static str> {
        vec![
            "shuttle runs one thread at a time with sequentially consistent memory; evmap's own lock-free internals are real code but are never entered concurrently",
            "harness readers copy what they need and drop evmap guards before the next scheduling point",
        ]
    }
    fn real_components() -> Vec<&'static str> {
        vec!["adlt::lifecycle::parse_lifecycles_buffered_from_stream", "adlt::utils::sync_sender_send_delay_if_full", "adlt::utils::buffer_sort_messages", "evmap"]
    }
    fn stub_components() -> Vec<&'static str> {
        vec!["producer, consumer and polling threads", "thread scheduling, channels, sleep (shuttle + seam)", "world model"]
    }
    fn required_reach() -> Vec<&'static str> {
        vec!["try_send_full", "delivery_points_checked", "poller_polls", "small_channel_capacity"]
    }
}

// ---------------------------------------------------------------------------------------------

fn canon_msgs(v: &[DltMessage]) -> Vec<DltMessage> {
    let ids = canonical_ids(v);
    v.iter()
        .map(|m| {
            let mut m = m.clone();
            m.lifecycle = ids[&m.lifecycle];
            m
        })
        .collect()
}

pub struct C13;
impl Check for C13 {
    type Case = PipeCase;
    const ID: &'static str = "C13";
    fn runs(t: Tier) -> u64 {
        t.pick(40_000, 2_000_000)
    }
    fn generate(rng: &mut Rng, tier: Tier, idx: u64) -> PipeCase {
        let mut t = gen_trace_case(rng, tier, idx % 3 == 1);
        t.split = 0;
        if t.trace.len() > 300 {
            t.trace.truncate(300);
        }
        let mut k = rng.sub("pipe");
        let (ps, cs) = PipeCfg::gen_pacing(&mut k, t.trace.len());
        let pipe = PipeCfg {
            sort: if k.chance(1, 3) { Some((*k.pick(&[1u8, 2, 3, 10]), *k.pick(&[0u64, 1_000, 2_000_000, 20_000_000]))) } else { None },
            filters: if k.chance(1, 3) { simple_filters(&mut k) } else { vec![] },
            plugins: if k.chance(1, 3) { crate::plug::gen_light_plugins(&mut k) } else { vec![] },
            producer_stalls: ps,
            consumer_stalls: cs,
            consumer_drop_after: if k.chance(1, 5) { Some(k.usize(t.trace.len() + 1)) } else { None },
            poller: false,
        };
        let sched = SchedCfg::gen(&mut rng.sub("sched"));
        let remote = if idx % 8 == 5 {
            let mut r = rng.sub("remote");
            Some(RemoteLeg { sort: r.chance(1, 2), collect: (*r.pick(&["true", "true", "\"one_pass_streams\"", "false"])).to_string(), wait1: *r.pick(&[0usize, 0, 1, 3, 10, 50, 400]), pause: r.chance(1, 4), wait2: *r.pick(&[0usize, 2, 30]), full: r.chance(1, 2), query: r.chance(1, 2) })
        } else {
            None
        };
        PipeCase { t, pipe, sched, remote }
    }
    fn run(c: &PipeCase, ctx: &mut Ctx) -> Result<(), Violation> {
        record_world(&c.t, ctx);
        record_sched(c, ctx);
        if let Some(r) = &c.remote {
            return run_remote_leg(c, r, ctx);
        }
        let msgs = to_dlts(&c.t.trace, c.t.index_base);
        let reference = run_reference(msgs.clone(), &c.pipe, ctx)?;
        adlt_verif_seam::probes::reset();
        let r = run_pipeline(msgs, &c.pipe, &c.sched, ctx)?;
        ctx.event_u64(r.delivered.len() as u64);
        for m in r.delivered.iter() {
            ctx.event_u64(m.index as u64);
        }
        ctx.cfg("consumer_disappears");
        let sorted = c.pipe.sort.is_some();
        let ref_c = canon_msgs(&reference.delivered);
        let got_c = canon_msgs(&r.delivered);
        match c.pipe.consumer_drop_after {
            None => {
                if !sorted {
                    // absolute, not only relative to the reference: an unsorted pipeline never reorders
                    if let Some(w) = got_c.windows(2).find(|w| w[0].index >= w[1].index) {
                        viol!("pipeline-reordered", "unsorted pipeline delivered message {} before message {}", w[0].index, w[1].index);
                    }
                    if got_c.len() != ref_c.len() {
                        viol!("pipeline-count", "bounded pipeline delivered {} messages, unbounded reference {}", got_c.len(), ref_c.len());
                    }
                    for (i, (a, b)) in got_c.iter().zip(ref_c.iter()).enumerate() {
                        if a != b {
                            viol!("pipeline-sequence", "position {}: message index {} (lifecycle #{}) vs reference index {} (lifecycle #{})", i, a.index, a.lifecycle, b.index, b.lifecycle);
                        }
                    }
                } else {
                    let mut a: Vec<u32> = got_c.iter().map(|m| m.index).collect();
                    let mut b: Vec<u32> = ref_c.iter().map(|m| m.index).collect();
                    a.sort();
                    b.sort();
                    if a != b {
                        viol!("pipeline-permutation", "sorted bounded pipeline delivered {} messages that are not a permutation of the reference's {}", a.len(), b.len());
                    }
                }
                // final table identical modulo renaming
                let canon_table = |o: &PipeOut, sorted: bool| -> Vec<(u32, [u8; 4], u32, u64, u64)> {
                    let ids = canonical_ids(&o.delivered);
                    let mut t: Vec<(u32, [u8; 4], u32, u64, u64)> = o
                        .table
                        .iter()
                        .map(|l| (if sorted { 0 } else { *ids.get(&l.id).unwrap_or(&0) }, l.ecu, l.nr_msgs, l.start, l.end))
                        .collect();
                    t.sort();
                    t
                };
                let filtered = !c.pipe.filters.is_empty() || !c.pipe.plugins.is_empty();
                let ta = canon_table(&r, sorted || filtered);
                let tb = canon_table(&reference, sorted || filtered);
                if ta != tb {
                    viol!("pipeline-table", "final lifecycle table differs from the unbounded reference: {:?} vs {:?}", ta, tb);
                }
                if r.producer_err || r.producer_sent != c.t.trace.len() {
                    viol!("pipeline-producer-error", "producer saw a send error after {} messages although the consumer stayed", r.producer_sent);
                }
                if let (Some(Ok(a)), Some(Ok(b))) = (&r.filter_result, &reference.filter_result) {
                    if a != b {
                        viol!("pipeline-filter-counts", "filter stage counts {:?} vs reference {:?}", a, b);
                    }
                }
            }
            Some(k) => {
                ctx.fired("consumer_disappears");
                // everything terminated (we are here); nothing delivered twice, prefix of the reference
                if got_c.len() > k {
                    viol!("pipeline-after-drop", "consumer received {} messages after announcing to stop at {}", got_c.len(), k);
                }
                let mut seen = HashSet::new();
                for m in got_c.iter() {
                    if !seen.insert(m.index) {
                        viol!("pipeline-duplicate", "message {} delivered twice before the consumer disappeared", m.index);
                    }
                }
                if !sorted {
                    for (i, (a, b)) in r.delivered.iter().zip(reference.delivered.iter()).enumerate() {
                        if a.index != b.index {
                            viol!("pipeline-sequence", "position {} before the drop: index {} vs reference {}", i, a.index, b.index);
                        }
                    }
                }
                if got_c.len() < std::cmp::min(k, ref_c.len()) {
                    viol!("pipeline-lost-before-drop", "consumer wanted {} messages, reference has {}, but only {} arrived", k, ref_c.len(), got_c.len());
                }
            }
        }
        ctx.nontrivial = c.t.trace.len() > 1;
        Ok(())
    }
    fn shrink(c: &PipeCase) -> Vec<PipeCase> {
        let mut v = shrink_pipe_case(c);
        if !c.pipe.plugins.is_empty() {
            let mut p = c.pipe.clone();
            p.plugins.clear();
            v.push(PipeCase { pipe: p, ..c.clone() });
        }
        v
    }
    fn finding_key(_c: &PipeCase, v: &Violation) -> Option<String> {
        if v.class == "remote-client-keeps-merged-lifecycle" {
            return Some("C13-remote-client-keeps-merged-lifecycle".into());
        }
        crate::lc::lc_finding_key(v)
    }
    fn rule() -> &'static str {
        "one run = one simulated world (<= 300 messages) through a pipeline assembled like convert.rs from the public stages (lifecycle, optional plugins, optional sort, optional filter), every stage a shuttle thread sending with the blocking-send helper over sync_channels whose bounds are overridden per run (0/1/2/3-16/1024), producer and consumer stalling at random points, in 1 of 5 runs the consumer disappearing after k messages; compared with the same stages run to completion one after the other over unbounded channels; one run in eight uses the wiring of remote.rs instead (real create_parser_thread behind the server loop, sorted or not, collect modes) where the consumer leaves through `close` after 0-400 polls, optionally paused, followed by a second open/close: close must complete and be answered; in half of these runs everything is parsed instead and the lifecycle table a client accumulates from the server's incremental updates is compared with the table of the unbounded reference run, and in half of those a query and a stream over everything are requested straight after the open (while the pipeline is still producing): both must deliver every message, the query the same sequence as the stream plus an end marker; one seeded schedule per run; non-trivial = more than one message; distinct = hash of (world, scheduler seed, capacities)"
    }
    fn assumptions() -> Vec<&'static str> {
        vec![
            "lifecycle ids are compared after renaming by first appearance",
            "for the sorted pipeline only the multiset is compared (the sorter reads lifecycle starts at first sight, which legitimately depends on timing)",
            "shuttle's deadlock detection and the step bound (3M steps) turn 'blocks forever' into a violation",
        ]
    }
    fn real_components() -> Vec<&'static str> {
        vec![
            "adlt::lifecycle::parse_lifecycles_buffered_from_stream",
            "adlt::plugins::plugins_process_msgs (+ FileTransfer, Rewrite plugins)",
            "adlt::utils::buffer_sort_messages",
            "adlt::filter::functions::filter_as_streams",
            "adlt::utils::sync_sender_send_delay_if_full",
            "evmap",
            "remote.rs: create_parser_thread wiring, close handling (remote leg)",
        ]
    }
    fn stub_components() -> Vec<&'static str> {
        vec!["producer and consumer threads", "thread scheduling, channels, sleep (shuttle + seam)", "world model"]
    }
    fn required_reach() -> Vec<&'static str> {
        vec!["try_send_full", "blocking_send", "send_disconnected", "consumer_disappears", "small_channel_capacity", "remote_wiring_close_runs", "remote_lifecycle_updates_compared"]
    }
}
