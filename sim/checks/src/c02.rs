//! C02 — Export fidelity: write/parse round trip and normal form (engine E1)

use crate::c01::{gen_items, iterate, ReaderCfg};
use crate::fw::{shrink_vec, Check, Ctx, Tier, Violation};
use crate::gen_dlt::*;
use crate::rng::Rng;
use crate::scripted::{gen_sched, ScriptedSink, SinkSched};
use crate::viol;
use adlt::dlt::{parse_dlt_with_storage_header, DltMessage};
use serde::{Deserialize, Serialize};
use std::sync::Arc;

#[derive(Clone, Debug, Serialize, Deserialize)]
pub struct Case {
    pub framing: Framing,
    pub start_index: u32,
    pub items: Vec<Item>,
    pub sink: SinkSched,
    pub reread: ReaderCfg,
    /// messages follow each other without noise and some payloads contain a frame marker
    #[serde(default)]
    pub embedded_markers: bool,
}

fn same_promised_fields(a: &DltMessage, b: &DltMessage) -> Option<String> {
    if a.ecu != b.ecu {
        return Some(format!("ecu {:?} vs {:?}", a.ecu, b.ecu));
    }
    if a.reception_time_us != b.reception_time_us {
        return Some(format!(
            "reception time {} vs {}",
            a.reception_time_us, b.reception_time_us
        ));
    }
    if a.timestamp_dms != b.timestamp_dms {
        return Some(format!("timestamp {} vs {}", a.timestamp_dms, b.timestamp_dms));
    }
    if a.standard_header.has_timestamp() != b.standard_header.has_timestamp() {
        return Some("timestamp presence differs".into());
    }
    if a.mcnt() != b.mcnt() {
        return Some(format!("mcnt {} vs {}", a.mcnt(), b.mcnt()));
    }
    if a.is_big_endian() != b.is_big_endian() {
        return Some("payload byte order flag differs".into());
    }
    if a.extended_header != b.extended_header {
        return Some(format!(
            "extended header {:?} vs {:?}",
            a.extended_header, b.extended_header
        ));
    }
    if a.payload != b.payload {
        return Some(format!(
            "payload differs (len {} vs {})",
            a.payload.len(),
            b.payload.len()
        ));
    }
    None
}

pub struct C02;
impl Check for C02 {
    type Case = Case;
    const ID: &'static str = "C02";
    fn runs(t: Tier) -> u64 {
        t.pick(60_000, 2_000_000)
    }
    fn generate(rng: &mut Rng, tier: Tier, idx: u64) -> Case {
        let mut wl = rng.sub("workload");
        let (framing, mut items) = gen_items(&mut wl, tier, idx, true);
        let mut k = rng.sub("knobs");
        // a well-formed stream may carry frame markers inside payloads (e.g. a transferred .dlt file):
        // messages back to back, 1-3 payloads get a marker at a random offset
        let mut e = rng.sub("embed");
        let embedded_markers = e.chance(1, 4);
        if embedded_markers {
            items.retain(|it| matches!(it, Item::Msg(_)));
            let n = items.len();
            for _ in 0..e.urange(1, 3) {
                if n == 0 {
                    break;
                }
                let j = if e.chance(1, 2) { n - 1 } else { e.usize(n) };
                if let Item::Msg(m) = &mut items[j] {
                    if m.payload.len() >= 4 {
                        let o = e.usize(m.payload.len() - 3);
                        let mk: &[u8; 4] = if e.chance(3, 4) { b"DLT\x01" } else { b"DLS\x01" };
                        m.payload[o..o + 4].copy_from_slice(mk);
                    }
                }
            }
        }
        let sink = SinkSched {
            seed: k.next_u64(),
            max: *k.pick(&[0usize, 1, 3, 7, 100, 5000]),
            interrupt_1_in: *k.pick(&[0u64, 0, 2, 5, 20]),
        };
        let reread = if k.chance(1, 5) {
            ReaderCfg::Slice
        } else {
            ReaderCfg::LowMark {
                cap_extra: *k.pick(&[4096usize, 4097, 8192, 100_000]),
                sched: gen_sched(&mut k),
            }
        };
        Case {
            framing,
            start_index: k.u32() % 1000,
            items,
            sink,
            reread,
            embedded_markers,
        }
    }

    fn run(c: &Case, ctx: &mut Ctx) -> Result<(), Violation> {
        let img = assemble(&c.items, c.framing);
        if !c.embedded_markers && !markers_only_at_starts(&img) {
            return Ok(());
        }
        if c.embedded_markers {
            ctx.probe("streams_with_markers_inside_payloads");
        }
        let bounds: Arc<Vec<usize>> = Arc::new(img.msgs.iter().map(|(o, l)| o + l).collect());
        let bytes = Arc::new(img.bytes);
        let parsed = iterate(&bytes, &bounds, c.start_index, &ReaderCfg::Slice).msgs;
        ctx.sig.u64(parsed.len() as u64);
        ctx.sig.u64(crate::rng::fnv1a(&bytes[..std::cmp::min(bytes.len(), 4096)]));
        ctx.cfg("short_writes");
        ctx.cfg("interrupted_writes");
        ctx.sim_time(bytes.len() as u128);
        // per message
        let mut file1 = ScriptedSink::new(c.sink.clone());
        for (k, m) in parsed.iter().enumerate() {
            let mut s = ScriptedSink::new(SinkSched {
                seed: c.sink.seed ^ k as u64,
                ..c.sink.clone()
            });
            if let Err(e) = m.to_write(&mut s) {
                viol!("write-error", "message {}: to_write failed: {}", k, e);
            }
            ctx.fired_n("short_writes", s.short_writes);
            ctx.fired_n("interrupted_writes", s.interrupts);
            let b = s.data;
            let (n, m2) = match parse_dlt_with_storage_header(m.index, &b) {
                Ok(x) => x,
                Err(e) => viol!("reparse-failed", "message {}: {} ({} bytes written)", k, e, b.len()),
            };
            if n != b.len() {
                viol!("reparse-consumed", "message {}: consumed {} of {} written", k, n, b.len());
            }
            if let Some(d) = same_promised_fields(m, &m2) {
                viol!("roundtrip-field", "message {}: {}", k, d);
            }
            let mut s2 = ScriptedSink::new(SinkSched {
                seed: 1,
                max: 0,
                interrupt_1_in: 0,
            });
            m2.to_write(&mut s2).unwrap();
            if s2.data != b {
                viol!("normal-form", "message {}: rewrite differs from first write", k);
            }
            ctx.event_u64(crate::rng::fnv1a(&b));
            if let Err(e) = m.to_write(&mut file1) {
                viol!("write-error", "file write of message {}: {}", k, e);
            }
            if c.embedded_markers && m.payload.windows(4).any(|w| w == b"DLT\x01" || w == b"DLS\x01") {
                ctx.probe("messages_with_embedded_marker_round_tripped");
            }
            if m.payload.len() > 60000 {
                ctx.probe("near_max_payload");
            }
            if m.standard_header.has_ecu_id() || m.standard_header.has_session_id() {
                ctx.probe("std_header_ecu_or_session_id_dropped_on_write");
            }
        }
        // file level: export, re-read through a scripted reader, export again
        let f1 = Arc::new(file1.data);
        let b1: Arc<Vec<usize>> = Arc::new(vec![]);
        let r1 = iterate(&f1, &b1, c.start_index, &c.reread);
        ctx.fired_n("short_reads", r1.short_reads);
        if r1.msgs.len() != parsed.len() {
            viol!("export-count", "export re-reads to {} messages, expected {}", r1.msgs.len(), parsed.len());
        }
        if r1.skipped != 0 || r1.processed != f1.len() {
            viol!("export-garbage", "export re-read skipped {} processed {} of {}", r1.skipped, r1.processed, f1.len());
        }
        for (k, (a, b)) in parsed.iter().zip(r1.msgs.iter()).enumerate() {
            if a.index != b.index {
                viol!("export-order", "message {} index {} vs {}", k, a.index, b.index);
            }
            if let Some(d) = same_promised_fields(a, b) {
                viol!("export-field", "message {}: {}", k, d);
            }
        }
        let mut file2 = ScriptedSink::new(SinkSched {
            seed: 2,
            max: 0,
            interrupt_1_in: 0,
        });
        for m in r1.msgs.iter() {
            m.to_write(&mut file2).unwrap();
        }
        if file2.data != *f1 {
            viol!("export-of-export", "second export differs ({} vs {} bytes)", file2.data.len(), f1.len());
        }
        if !parsed.is_empty() {
            ctx.nontrivial = true;
        }
        Ok(())
    }

    fn shrink(c: &Case) -> Vec<Case> {
        let mut out = vec![];
        for items in shrink_vec(&c.items) {
            out.push(Case { items, ..c.clone() });
        }
        out.push(Case {
            sink: SinkSched { seed: 0, max: 0, interrupt_1_in: 0 },
            ..c.clone()
        });
        out.push(Case { reread: ReaderCfg::Slice, ..c.clone() });
        for (i, it) in c.items.iter().enumerate() {
            if let Item::Msg(m) = it {
                if m.payload.len() > 1 {
                    let mut m2 = m.clone();
                    m2.payload.truncate(m.payload.len() / 2);
                    let mut items = c.items.clone();
                    items[i] = Item::Msg(m2);
                    out.push(Case { items, ..c.clone() });
                }
            }
        }
        out
    }

    fn rule() -> &'static str {
        "one run = one generated well-formed stream (as C01); in one run of four the messages follow each other without noise and 1-3 payloads carry a frame marker (whatever the reader recognises is the input set); every parsed message is written through a scripted sink (short writes, EINTR), re-parsed and re-written; then the whole export is re-read through a scripted short-read reader and exported again; non-trivial = at least one message; distinct = hash of (#messages, first 4 KiB of the stream)"
    }
    fn assumptions() -> Vec<&'static str> {
        vec![
            "fields the statement does not promise (session id, std-header ECU flag, htyp version bits, original len) are excluded from comparison",
            "the end-to-end `convert -o` path is exercised by C14, not here",
        ]
    }
    fn real_components() -> Vec<&'static str> {
        vec![
            "adlt::dlt::DltMessage::to_write",
            "adlt::dlt::parse_dlt_with_storage_header",
            "adlt::utils::DltMessageIterator",
            "adlt::utils::LowMarkBufReader",
        ]
    }
    fn stub_components() -> Vec<&'static str> {
        vec!["writer (ScriptedSink)", "reader (ScriptedSource)", "message producer"]
    }
    fn required_reach() -> Vec<&'static str> {
        vec!["short_writes", "interrupted_writes", "near_max_payload", "streams_with_markers_inside_payloads", "messages_with_embedded_marker_round_tripped"]
    }
}
