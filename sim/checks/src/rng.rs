//! Self-contained PRNG (splitmix64 seeding, xoshiro256**): no dependence on platform or crate
//! versions, so one integer decides a run everywhere.

#[derive(Clone, Debug)]
pub struct Rng {
    s: [u64; 4],
}

pub fn splitmix64(x: &mut u64) -> u64 {
    *x = x.wrapping_add(0x9E37_79B9_7F4A_7C15);
    let mut z = *x;
    z = (z ^ (z >> 30)).wrapping_mul(0xBF58_476D_1CE4_E5B9);
    z = (z ^ (z >> 27)).wrapping_mul(0x94D0_49BB_1331_11EB);
    z ^ (z >> 31)
}

pub fn mix3(a: u64, b: u64, c: u64) -> u64 {
    let mut x = a ^ 0x5151_5151_5151_5151;
    let mut r = splitmix64(&mut x);
    x ^= b.wrapping_mul(0xD6E8_FEB8_6659_FD93);
    r ^= splitmix64(&mut x);
    x ^= c.wrapping_mul(0xA076_1D64_78BD_642F);
    r ^= splitmix64(&mut x);
    splitmix64(&mut r.clone()) ^ r.rotate_left(17)
}

pub fn str_id(s: &str) -> u64 {
    fnv1a(s.as_bytes())
}

pub fn fnv1a(b: &[u8]) -> u64 {
    let mut h: u64 = 0xcbf2_9ce4_8422_2325;
    for x in b {
        h ^= *x as u64;
        h = h.wrapping_mul(0x0000_0100_0000_01B3);
    }
    h
}

/// incremental hash for event logs / case signatures
#[derive(Clone, Debug)]
pub struct Hasher64(pub u64);
impl Default for Hasher64 {
    fn default() -> Self {
        Hasher64(0xcbf2_9ce4_8422_2325)
    }
}
impl Hasher64 {
    pub fn new() -> Self {
        Self::default()
    }
    pub fn bytes(&mut self, b: &[u8]) {
        for x in b {
            self.0 ^= *x as u64;
            self.0 = self.0.wrapping_mul(0x0000_0100_0000_01B3);
        }
    }
    pub fn u64(&mut self, v: u64) {
        self.bytes(&v.to_le_bytes());
    }
    pub fn str(&mut self, s: &str) {
        self.bytes(s.as_bytes());
        self.bytes(&[0xff]);
    }
    pub fn finish(&self) -> u64 {
        let mut x = self.0;
        splitmix64(&mut x)
    }
}

impl Rng {
    pub fn new(seed: u64) -> Rng {
        let mut x = seed;
        let s = [
            splitmix64(&mut x),
            splitmix64(&mut x),
            splitmix64(&mut x),
            splitmix64(&mut x),
        ];
        Rng { s }
    }
    /// independent sub-stream: adding draws in one sub-stream never shifts another
    pub fn sub(&self, label: &str) -> Rng {
        Rng::new(mix3(self.s[0] ^ self.s[2], str_id(label), self.s[1] ^ self.s[3]))
    }
    pub fn next_u64(&mut self) -> u64 {
        let r = self.s[1].wrapping_mul(5).rotate_left(7).wrapping_mul(9);
        let t = self.s[1] << 17;
        self.s[2] ^= self.s[0];
        self.s[3] ^= self.s[1];
        self.s[1] ^= self.s[2];
        self.s[0] ^= self.s[3];
        self.s[2] ^= t;
        self.s[3] = self.s[3].rotate_left(45);
        r
    }
    /// uniform in 0..n (n > 0)
    pub fn below(&mut self, n: u64) -> u64 {
        debug_assert!(n > 0);
        // multiply-shift; bias negligible for our n
        ((self.next_u64() as u128 * n as u128) >> 64) as u64
    }
    pub fn usize(&mut self, n: usize) -> usize {
        self.below(n as u64) as usize
    }
    /// uniform in lo..=hi
    pub fn range(&mut self, lo: u64, hi: u64) -> u64 {
        lo + self.below(hi - lo + 1)
    }
    pub fn urange(&mut self, lo: usize, hi: usize) -> usize {
        self.range(lo as u64, hi as u64) as usize
    }
    /// true with probability num/den
    pub fn chance(&mut self, num: u64, den: u64) -> bool {
        self.below(den) < num
    }
    pub fn bool(&mut self) -> bool {
        self.next_u64() & 1 == 1
    }
    pub fn u8(&mut self) -> u8 {
        (self.next_u64() >> 32) as u8
    }
    pub fn u32(&mut self) -> u32 {
        (self.next_u64() >> 16) as u32
    }
    pub fn pick<'a, T>(&mut self, xs: &'a [T]) -> &'a T {
        &xs[self.usize(xs.len())]
    }
    pub fn bytes(&mut self, n: usize) -> Vec<u8> {
        let mut v = Vec::with_capacity(n);
        while v.len() + 8 <= n {
            v.extend_from_slice(&self.next_u64().to_le_bytes());
        }
        while v.len() < n {
            v.push(self.u8());
        }
        v
    }
    /// random bytes of random length 0..max
    pub fn bytes_upto(&mut self, max: usize) -> Vec<u8> {
        let n = self.usize(std::cmp::max(1, max));
        self.bytes(n)
    }
    pub fn shuffle<T>(&mut self, xs: &mut [T]) {
        for i in (1..xs.len()).rev() {
            let j = self.usize(i + 1);
            xs.swap(i, j);
        }
    }
    /// weighted choice: returns index
    pub fn weighted(&mut self, w: &[u32]) -> usize {
        let tot: u64 = w.iter().map(|x| *x as u64).sum();
        let mut r = self.below(tot);
        for (i, x) in w.iter().enumerate() {
            if r < *x as u64 {
                return i;
            }
            r -= *x as u64;
        }
        w.len() - 1
    }
}
