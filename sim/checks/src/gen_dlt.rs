//! Producer side of the stream simulations: message specifications with ground truth, framing,
//! marker bookkeeping.

use crate::fw::hexbytes;
use crate::rng::Rng;
use adlt::dlt::{DltChar4, DltExtendedHeader, DltMessage, DltStandardHeader};
use serde::{Deserialize, Serialize};

pub const M_STORAGE: [u8; 4] = [b'D', b'L', b'T', 1];
pub const M_SERIAL: [u8; 4] = [b'D', b'L', b'S', 1];
pub const SERIAL_SECS: u32 = (2023 - 1970) * 365 * 24 * 60 * 60;

pub const HT_EXT: u8 = 1;
pub const HT_BE: u8 = 2;
pub const HT_ECU: u8 = 4;
pub const HT_SID: u8 = 8;
pub const HT_TS: u8 = 16;

#[derive(Clone, Copy, Debug, PartialEq, Eq, Serialize, Deserialize)]
pub enum Framing {
    Storage,
    Serial,
}
impl Framing {
    pub fn marker(&self) -> [u8; 4] {
        match self {
            Framing::Storage => M_STORAGE,
            Framing::Serial => M_SERIAL,
        }
    }
    pub fn min_msg(&self) -> usize {
        match self {
            Framing::Storage => 20,
            Framing::Serial => 8,
        }
    }
    pub fn hdr(&self) -> usize {
        match self {
            Framing::Storage => 16,
            Framing::Serial => 4,
        }
    }
}

#[derive(Clone, Debug, PartialEq, Eq, Serialize, Deserialize)]
pub struct ExtSpec {
    pub mstp: u8,
    pub noar: u8,
    pub apid: [u8; 4],
    pub ctid: [u8; 4],
}

#[derive(Clone, Debug, PartialEq, Eq, Serialize, Deserialize)]
pub struct MsgSpec {
    pub secs: u32,
    pub micros: u32,
    pub st_ecu: [u8; 4],
    /// full htyp byte (flag bits + version bits)
    pub htyp: u8,
    pub mcnt: u8,
    pub ecu: [u8; 4],
    pub sid: u32,
    pub ts: u32,
    pub ext: Option<ExtSpec>,
    #[serde(with = "hexbytes")]
    pub payload: Vec<u8>,
}

impl MsgSpec {
    pub fn std_ext_size(&self) -> usize {
        let mut l = 4;
        if self.htyp & HT_ECU != 0 {
            l += 4;
        }
        if self.htyp & HT_SID != 0 {
            l += 4;
        }
        if self.htyp & HT_TS != 0 {
            l += 4;
        }
        if self.htyp & HT_EXT != 0 {
            l += 10;
        }
        l
    }
    pub fn max_payload(htyp: u8) -> usize {
        let m = MsgSpec {
            secs: 0,
            micros: 0,
            st_ecu: [0; 4],
            htyp,
            mcnt: 0,
            ecu: [0; 4],
            sid: 0,
            ts: 0,
            ext: None,
            payload: vec![],
        };
        65535 - m.std_ext_size()
    }
    pub fn len_field(&self) -> u16 {
        (self.std_ext_size() + self.payload.len()) as u16
    }
    pub fn encoded_len(&self, f: Framing) -> usize {
        f.hdr() + self.std_ext_size() + self.payload.len()
    }
    pub fn encode(&self, f: Framing, out: &mut Vec<u8>) {
        match f {
            Framing::Storage => {
                out.extend_from_slice(&M_STORAGE);
                out.extend_from_slice(&self.secs.to_le_bytes());
                out.extend_from_slice(&self.micros.to_le_bytes());
                out.extend_from_slice(&self.st_ecu);
            }
            Framing::Serial => out.extend_from_slice(&M_SERIAL),
        }
        out.push(self.htyp);
        out.push(self.mcnt);
        out.extend_from_slice(&self.len_field().to_be_bytes());
        if self.htyp & HT_ECU != 0 {
            out.extend_from_slice(&self.ecu);
        }
        if self.htyp & HT_SID != 0 {
            out.extend_from_slice(&self.sid.to_be_bytes());
        }
        if self.htyp & HT_TS != 0 {
            out.extend_from_slice(&self.ts.to_be_bytes());
        }
        if self.htyp & HT_EXT != 0 {
            let e = self.ext.as_ref().expect("ext spec");
            out.push(e.mstp);
            out.push(e.noar);
            out.extend_from_slice(&e.apid);
            out.extend_from_slice(&e.ctid);
        }
        out.extend_from_slice(&self.payload);
    }

    /// compare a parsed message with the ground truth; returns a description of the first
    /// differing field
    pub fn diff(&self, f: Framing, index: u32, m: &DltMessage) -> Option<String> {
        if m.index != index {
            return Some(format!("index {} != {}", m.index, index));
        }
        let (rt, secu) = match f {
            Framing::Storage => (
                self.secs as u64 * 1_000_000 + self.micros as u64,
                self.st_ecu,
            ),
            Framing::Serial => (SERIAL_SECS as u64 * 1_000_000, [b'D', b'L', b'S', 0]),
        };
        if m.reception_time_us != rt {
            return Some(format!("reception_time_us {} != {}", m.reception_time_us, rt));
        }
        let ecu = if self.htyp & HT_ECU != 0 {
            self.ecu
        } else {
            secu
        };
        if m.ecu.as_buf() != &ecu {
            return Some(format!("ecu {:?} != {:?}", m.ecu.as_buf(), ecu));
        }
        let ts = if self.htyp & HT_TS != 0 { self.ts } else { 0 };
        if m.timestamp_dms != ts {
            return Some(format!("timestamp {} != {}", m.timestamp_dms, ts));
        }
        let sh = DltStandardHeader {
            htyp: self.htyp,
            mcnt: self.mcnt,
            len: self.len_field(),
        };
        if m.standard_header != sh {
            return Some(format!("std header {:?} != {:?}", m.standard_header, sh));
        }
        let eh = if self.htyp & HT_EXT != 0 {
            let e = self.ext.as_ref().unwrap();
            Some(DltExtendedHeader {
                verb_mstp_mtin: e.mstp,
                noar: e.noar,
                apid: DltChar4::from_buf(&e.apid),
                ctid: DltChar4::from_buf(&e.ctid),
            })
        } else {
            None
        };
        if m.extended_header != eh {
            return Some(format!("ext header {:?} != {:?}", m.extended_header, eh));
        }
        if m.payload != self.payload {
            let p = m
                .payload
                .iter()
                .zip(self.payload.iter())
                .position(|(a, b)| a != b);
            return Some(format!(
                "payload differs (len {} vs {}, first diff at {:?})",
                m.payload.len(),
                self.payload.len(),
                p
            ));
        }
        if m.lifecycle != 0 || m.payload_text.is_some() {
            return Some("lifecycle/payload_text not pristine".into());
        }
        None
    }
}

#[derive(Clone, Debug, Serialize, Deserialize)]
pub enum Item {
    Msg(MsgSpec),
    Noise(#[serde(with = "hexbytes")] Vec<u8>),
}

pub struct Image {
    pub bytes: Vec<u8>,
    /// (offset, len) of each message
    pub msgs: Vec<(usize, usize)>,
    pub noise_total: usize,
    pub trailing_noise: usize,
}

pub fn assemble(items: &[Item], f: Framing) -> Image {
    let mut bytes = vec![];
    let mut msgs = vec![];
    let mut noise_total = 0;
    let mut trailing = 0;
    for it in items {
        match it {
            Item::Msg(m) => {
                let o = bytes.len();
                m.encode(f, &mut bytes);
                msgs.push((o, bytes.len() - o));
                trailing = 0;
            }
            Item::Noise(n) => {
                bytes.extend_from_slice(n);
                noise_total += n.len();
                trailing += n.len();
            }
        }
    }
    Image {
        bytes,
        msgs,
        noise_total,
        trailing_noise: trailing,
    }
}

/// positions of either frame marker in `b`
pub fn marker_positions(b: &[u8]) -> Vec<usize> {
    let mut v = vec![];
    if b.len() < 4 {
        return v;
    }
    for i in 0..b.len() - 3 {
        if b[i] == b'D' && b[i + 1] == b'L' && b[i + 3] == 1 && (b[i + 2] == b'T' || b[i + 2] == b'S')
        {
            v.push(i);
        }
    }
    v
}

/// true iff markers occur exactly at the message starts
pub fn markers_only_at_starts(img: &Image) -> bool {
    let pos = marker_positions(&img.bytes);
    pos.len() == img.msgs.len() && pos.iter().zip(img.msgs.iter()).all(|(p, (o, _))| p == o)
}

fn id4(rng: &mut Rng) -> [u8; 4] {
    match rng.below(6) {
        0 => [rng.u8(), rng.u8(), rng.u8(), rng.u8()],
        1 => [b'E', b'C', b'U', b'0' + rng.below(4) as u8],
        2 => [b'A', rng.u8() % 26 + b'A', 0, 0],
        3 => [0, 0, 0, 0],
        4 => [b'D', b'L', b'T', rng.u8()],
        _ => {
            let mut x = [0u8; 4];
            for c in x.iter_mut() {
                *c = 0x20 + rng.u8() % 0x5f;
            }
            x
        }
    }
}

pub fn gen_payload(rng: &mut Rng, len: usize) -> Vec<u8> {
    match rng.below(4) {
        0 => vec![rng.u8(); len],
        1 => {
            // biased to marker letters
            let al = [b'D', b'L', b'S', b'T', 1u8, 0, b'x'];
            (0..len).map(|_| *rng.pick(&al)).collect()
        }
        _ => rng.bytes(len),
    }
}

/// a random message spec; `flags` fixes the five htyp flag bits if given
pub fn gen_msg(rng: &mut Rng, flags: Option<u8>, size_class: u32) -> MsgSpec {
    let mut htyp = flags.unwrap_or_else(|| rng.u8() & 0x1f) & 0x1f;
    // version bits: 1 mostly, arbitrary sometimes (the parser does not check them)
    htyp |= if rng.chance(1, 8) { rng.u8() & 0xe0 } else { 0x20 };
    let maxp = MsgSpec::max_payload(htyp);
    let plen = match size_class {
        0 => 0,
        1 => 1,
        2 => rng.urange(2, 64),
        3 => rng.urange(65, 2000),
        4 => rng.urange(std::cmp::min(65000, maxp), maxp),
        _ => maxp,
    };
    let ext = if htyp & HT_EXT != 0 {
        Some(ExtSpec {
            mstp: rng.u8(),
            noar: rng.u8(),
            apid: id4(rng),
            ctid: id4(rng),
        })
    } else {
        None
    };
    MsgSpec {
        secs: match rng.below(4) {
            0 => 0,
            1 => u32::MAX,
            _ => rng.u32(),
        },
        micros: rng.below(1_000_000) as u32,
        st_ecu: id4(rng),
        htyp,
        mcnt: rng.u8(),
        ecu: id4(rng),
        sid: rng.u32(),
        ts: match rng.below(4) {
            0 => 0,
            1 => u32::MAX,
            _ => rng.u32(),
        },
        ext,
        payload: gen_payload(rng, plen),
    }
}

pub fn gen_size_class(rng: &mut Rng) -> u32 {
    rng.weighted(&[10, 8, 40, 20, 3, 2]) as u32
}

/// marker-free noise of a given length, biased to marker letters and proper marker prefixes
pub fn gen_noise(rng: &mut Rng, len: usize) -> Vec<u8> {
    let mut v: Vec<u8> = Vec::with_capacity(len);
    let mode = rng.below(4);
    while v.len() < len {
        match mode {
            0 => v.push(rng.u8()),
            1 => {
                let al = [b'D', b'L', b'S', b'T', 1u8, 0, b'D', b'L'];
                v.push(*rng.pick(&al));
            }
            2 => {
                // proper prefixes of the markers
                let pre: [&[u8]; 6] = [b"D", b"DL", b"DLT", b"DLS", b"DL", b"\x01"];
                v.extend_from_slice(pre[rng.usize(pre.len())]);
                if rng.bool() {
                    v.push(rng.u8());
                }
            }
            _ => v.push(b'a' + rng.u8() % 26),
        }
    }
    v.truncate(len);
    // break markers inside the run
    for p in marker_positions(&v) {
        v[p + 3] = 2;
    }
    v
}

pub fn gen_noise_len(rng: &mut Rng, allow_long: bool) -> usize {
    match rng.weighted(&[30, 20, 20, 20, if allow_long { 2 } else { 0 }]) {
        0 => 0,
        1 => rng.urange(1, 3),
        2 => rng.urange(4, 19),
        3 => rng.urange(20, 200),
        _ => 70_000,
    }
}

/// turn a parsed message into a spec (used to re-derive ground truth from real messages)
pub fn spec_from_msg(m: &DltMessage) -> MsgSpec {
    MsgSpec {
        secs: (m.reception_time_us / 1_000_000) as u32,
        micros: (m.reception_time_us % 1_000_000) as u32,
        st_ecu: *m.ecu.as_buf(),
        htyp: m.standard_header.htyp,
        mcnt: m.standard_header.mcnt,
        ecu: *m.ecu.as_buf(),
        sid: 0,
        ts: m.timestamp_dms,
        ext: m.extended_header.as_ref().map(|e| ExtSpec {
            mstp: e.verb_mstp_mtin,
            noar: e.noar,
            apid: *e.apid.as_buf(),
            ctid: *e.ctid.as_buf(),
        }),
        payload: m.payload.clone(),
    }
}
