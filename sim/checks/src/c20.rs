//! C20 — Archives: volumes read as one file; extraction is faithful and confined
//! (i) SeekableChain against a Cursor over the concatenation (model-based histories)
//! (ii) zip extraction into a sandbox with canary parent

use crate::fw::{hexbytes, shrink_vec, Check, Ctx, Tier, Violation};
use crate::rng::Rng;
use crate::scripted::{gen_sched, Sched, ScriptedSource};
use crate::viol;
use adlt::utils::seekablechain::SeekableChain;
use serde::{Deserialize, Serialize};
use std::io::{Cursor, Read, Seek, SeekFrom, Write};
use std::sync::Arc;

#[derive(Clone, Debug, Serialize, Deserialize)]
pub enum ChainOp {
    Read(usize),
    SeekStart(u64),
    SeekCur(i64),
    SeekEnd(i64),
}

#[derive(Clone, Debug, Serialize, Deserialize)]
pub struct Vol {
    #[serde(with = "hexbytes")]
    pub data: Vec<u8>,
    pub sched: Sched,
}

#[derive(Clone, Debug, Serialize, Deserialize)]
pub struct Member {
    pub name: String,
    #[serde(with = "hexbytes")]
    pub data: Vec<u8>,
    pub is_dir: bool,
}

#[derive(Clone, Debug, Serialize, Deserialize)]
pub enum Case {
    Chain { vols: Vec<Vol>, ops: Vec<ChainOp> },
    Extract {
        members: Vec<Member>,
        globs: Vec<String>,
        uniq: u64,
        cancel_after: Option<usize>,
        /// another archive with the same file name (in another directory) that is opened first in the same process
        #[serde(default)]
        prior: Vec<Member>,
    },
}

fn gen_chain(rng: &mut Rng) -> Case {
    let nv = rng.urange(1, 6);
    let mut vols = vec![];
    let mut ctr = 0u32;
    for _ in 0..nv {
        let l = match rng.weighted(&[25, 25, 35, 15]) {
            0 => 0,
            1 => rng.urange(1, 4),
            2 => rng.urange(5, 60),
            _ => rng.urange(61, 5000),
        };
        let data: Vec<u8> = (0..l)
            .map(|_| {
                ctr = ctr.wrapping_add(1);
                (ctr.wrapping_mul(2654435761) >> 11) as u8
            })
            .collect();
        vols.push(Vol {
            data,
            sched: gen_sched(rng),
        });
    }
    let total: usize = vols.iter().map(|v| v.data.len()).sum();
    let n = rng.urange(1, 100);
    let mut ops = vec![];
    for _ in 0..n {
        let t = total as u64;
        ops.push(match rng.weighted(&[50, 20, 18, 12]) {
            0 => ChainOp::Read(match rng.below(4) {
                0 => 0,
                1 => rng.urange(1, 3),
                2 => rng.urange(1, 64),
                _ => rng.urange(1, total + 10),
            }),
            1 => ChainOp::SeekStart(match rng.below(5) {
                0 => 0,
                1 => t,
                2 => t + rng.below(20),
                _ => rng.below(t + 1),
            }),
            2 => ChainOp::SeekCur(match rng.below(5) {
                0 => 0,
                1 => -(rng.below(t + 30) as i64),
                2 => rng.below(t + 30) as i64,
                _ => rng.range(0, 20) as i64 - 10,
            }),
            _ => ChainOp::SeekEnd(match rng.below(4) {
                0 => 0,
                1 => rng.below(10) as i64,
                _ => -(rng.below(t + 10) as i64),
            }),
        });
    }
    Case::Chain { vols, ops }
}

fn run_chain(vols: &[Vol], ops: &[ChainOp], ctx: &mut Ctx) -> Result<(), Violation> {
    let concat: Vec<u8> = vols.iter().flat_map(|v| v.data.iter().copied()).collect();
    let total = concat.len();
    let mut counts = vec![];
    let srcs: Vec<ScriptedSource> = vols
        .iter()
        .map(|v| {
            let s = ScriptedSource::new(Arc::new(v.data.clone()), v.sched.clone(), Arc::new(vec![]));
            counts.push(s.counts.clone());
            s
        })
        .collect();
    let mut chain = SeekableChain::new(srcs);
    let mut reference = Cursor::new(concat.clone());
    ctx.sig.u64(vols.len() as u64);
    for v in vols {
        ctx.sig.u64(v.data.len() as u64);
    }
    ctx.sig.u64(ops.len() as u64);
    ctx.cfg("empty_volume");
    ctx.cfg("short_reads");
    if vols.iter().any(|v| v.data.is_empty()) {
        ctx.fired("empty_volume");
    }
    ctx.sim_time(ops.len() as u128);
    for (i, op) in ops.iter().enumerate() {
        match op {
            ChainOp::Read(n) => {
                let p = reference.position() as usize;
                let mut buf = vec![0u8; *n];
                let k = chain
                    .read(&mut buf)
                    .map_err(|e| Violation::new("chain-io-error", format!("op#{} read: {}", i, e)))?;
                if k > *n {
                    viol!("chain-read-overrun", "op#{} read({}) returned {}", i, n, k);
                }
                if k == 0 {
                    if *n > 0 && p < total {
                        viol!(
                            "chain-early-eof",
                            "op#{} read({}) returned 0 at position {} of {} (volume sizes {:?})",
                            i, n, p, total, vols.iter().map(|v| v.data.len()).collect::<Vec<_>>()
                        );
                    }
                } else {
                    if p + k > total || buf[..k] != concat[p..p + k] {
                        viol!("chain-wrong-bytes", "op#{} read({}) at position {}: {} bytes differ from the concatenation", i, n, p, k);
                    }
                    reference.set_position((p + k) as u64);
                }
                ctx.event_u64(k as u64);
            }
            ChainOp::SeekStart(_) | ChainOp::SeekCur(_) | ChainOp::SeekEnd(_) => {
                let sf = match op {
                    ChainOp::SeekStart(q) => SeekFrom::Start(*q),
                    ChainOp::SeekCur(d) => SeekFrom::Current(*d),
                    ChainOp::SeekEnd(d) => SeekFrom::End(*d),
                    _ => unreachable!(),
                };
                let before = reference.position();
                let a = chain.seek(sf);
                let b = reference.seek(sf);
                match (&a, &b) {
                    (Ok(x), Ok(y)) => {
                        if x != y {
                            let outside = *y > total as u64;
                            viol!(
                                if outside { "chain-seek-beyond-end-clamped" } else { "chain-seek-result" },
                                "op#{} {:?} from {}: chain returned {}, a single file returns {}",
                                i, op, before, x, y
                            );
                        }
                        if *y > total as u64 {
                            ctx.probe("seek_beyond_end");
                        }
                    }
                    (Err(_), Err(_)) => {
                        ctx.probe("seek_error_both");
                    }
                    (Ok(x), Err(_)) => {
                        viol!(
                            "chain-seek-before-start-accepted",
                            "op#{} {:?} from {}: chain returned Ok({}), a single file returns an error",
                            i, op, before, x
                        );
                    }
                    (Err(e), Ok(y)) => {
                        viol!("chain-seek-refused", "op#{} {:?}: chain error {} where a file returns {}", i, op, e, y);
                    }
                }
                ctx.event_u64(a.unwrap_or(u64::MAX));
            }
        }
    }
    let short: u64 = counts.iter().map(|c| c.get().1).sum();
    ctx.fired_n("short_reads", short);
    ctx.nontrivial = vols.len() > 1 && ops.len() > 1;
    Ok(())
}

pub struct C20;
impl Check for C20 {
    type Case = Case;
    const ID: &'static str = "C20";
    fn runs(t: Tier) -> u64 {
        t.pick(100_000, 4_000_000)
    }
    fn generate(rng: &mut Rng, tier: Tier, idx: u64) -> Case {
        if let Some(c) = crate::c20x::maybe_gen_extract(rng, tier, idx) {
            return c;
        }
        gen_chain(rng)
    }
    fn run(c: &Case, ctx: &mut Ctx) -> Result<(), Violation> {
        match c {
            Case::Chain { vols, ops } => {
                ctx.sig.u64(1);
                run_chain(vols, ops, ctx)
            }
            Case::Extract { members, globs, uniq, cancel_after, prior } => {
                ctx.sig.u64(2);
                crate::c20x::run_extract(members, globs, *uniq, *cancel_after, prior, ctx)
            }
        }
    }
    fn shrink(c: &Case) -> Vec<Case> {
        let mut out = vec![];
        match c {
            Case::Chain { vols, ops } => {
                for o in shrink_vec(ops) {
                    out.push(Case::Chain { vols: vols.clone(), ops: o });
                }
                if vols.len() > 1 {
                    for i in 0..vols.len() {
                        let mut v = vols.clone();
                        v.remove(i);
                        out.push(Case::Chain { vols: v, ops: ops.clone() });
                    }
                }
                for i in 0..vols.len() {
                    if vols[i].data.len() > 1 {
                        let mut v = vols.clone();
                        let l = v[i].data.len();
                        v[i].data.truncate(l / 2);
                        out.push(Case::Chain { vols: v, ops: ops.clone() });
                    }
                    if !matches!(vols[i].sched, Sched::All) {
                        let mut v = vols.clone();
                        v[i].sched = Sched::All;
                        out.push(Case::Chain { vols: v, ops: ops.clone() });
                    }
                }
                for (i, op) in ops.iter().enumerate() {
                    if let ChainOp::Read(n) = op {
                        if *n > 1 {
                            let mut o = ops.clone();
                            o[i] = ChainOp::Read(n / 2);
                            out.push(Case::Chain { vols: vols.clone(), ops: o });
                        }
                    }
                }
            }
            Case::Extract { members, globs, uniq, cancel_after, prior } => {
                if !prior.is_empty() {
                    out.push(Case::Extract { members: members.clone(), globs: globs.clone(), uniq: *uniq, cancel_after: *cancel_after, prior: vec![] });
                }
                for m in shrink_vec(members) {
                    out.push(Case::Extract { members: m, globs: globs.clone(), uniq: *uniq, cancel_after: *cancel_after, prior: prior.clone() });
                }
                if globs.len() > 1 {
                    for g in shrink_vec(globs) {
                        if !g.is_empty() {
                            out.push(Case::Extract { members: members.clone(), globs: g, uniq: *uniq, cancel_after: *cancel_after, prior: prior.clone() });
                        }
                    }
                }
                if cancel_after.is_some() {
                    out.push(Case::Extract { members: members.clone(), globs: globs.clone(), uniq: *uniq, cancel_after: None, prior: prior.clone() });
                }
            }
        }
        out
    }
    fn finding_key(c: &Case, v: &Violation) -> Option<String> {
        crate::c20x::finding_key(c, v)
    }
    fn rule() -> &'static str {
        "two kinds of runs: (i) a byte string split into 1-6 volumes (empty ones included), each a scripted short-read source, driven by a random history of up to 100 read(n)/seek(Start|Current|End) operations and compared step by step with a Cursor over the concatenation; (ii) a generated zip archive (nested dirs, hostile names, duplicates, empty members) extracted with generated glob patterns into a sandbox whose parent and siblings are scanned afterwards; one extraction run in six is a cancel history instead (optionally an earlier successful request, then a request whose in-memory archive source raises the cancel flag after k permille of the archive have been read, then the same request again into the same directory: whatever is reported must exist with the member's bytes, the repeated request must report every requested member), one in twelve is cancelled before it starts; non-trivial = more than one volume and more than one op / at least one member; distinct = hash of (volume sizes, #ops) or (member names, globs)"
    }
    fn assumptions() -> Vec<&'static str> {
        vec![
            "std::io::Cursor over the concatenation is the reference for 'a single file' (seek beyond the end allowed, seek before the start is an error)",
            "short non-empty reads are legal; a read returns 0 only at or beyond the end",
            "zip archives are produced with the zip crate's writer; names it refuses to write are outside the input space",
        ]
    }
    fn real_components() -> Vec<&'static str> {
        vec![
            "adlt::utils::seekablechain::SeekableChain",
            "adlt::utils::unzip::{list_archive_contents, extract_to_dir, archive_get_path_and_glob}",
            "adlt::utils::cloneable_seekable_reader::CloneableSeekableReader",
            "zip crate (reader)",
        ]
    }
    fn stub_components() -> Vec<&'static str> {
        vec!["volume readers (ScriptedSource)", "archive producer (zip writer)", "file system = real fs inside a per-run sandbox directory"]
    }
    fn required_reach() -> Vec<&'static str> {
        vec!["empty_volume", "short_reads", "seek_error_both", "alias_member_names", "same_named_archive_opened_before"]
    }
}

#[allow(dead_code)]
fn _w(_: &mut dyn Write) {}
