//! C10 — Time sorting is a permutation, and ordered under bounded delay (E2 -> sort stage)

use crate::fw::{shrink_vec, Check, Ctx, Tier, Violation};
use crate::lc::{gen_trace_case, record_world, shrink_trace_case, NoHash, TraceCase};
use crate::rng::Rng;
use crate::sh::{self, SchedCfg};
use crate::viol;
use crate::world::*;
use adlt::dlt::DltMessage;
use adlt::lifecycle::{parse_lifecycles_buffered_from_stream, Lifecycle, LifecycleId};
use adlt_verif_seam::std as sstd;
use serde::{Deserialize, Serialize};
use std::collections::HashMap;

#[derive(Clone, Debug, Serialize, Deserialize)]
pub enum TableKind {
    /// the table the lifecycle stage produced
    Real,
    /// same ids, start times shifted by these offsets (cycled), as a stale/foreign table
    Shifted(Vec<i64>),
    /// no entry at all
    Empty,
}

#[derive(Clone, Debug, Serialize, Deserialize)]
pub struct OrderMsg {
    pub lc: usize,
    pub rx_us: u64,
    pub ts: u32,
    pub ctrl_req: bool,
}

#[derive(Clone, Debug, Serialize, Deserialize)]
pub enum Case {
    Perm {
        t: TraceCase,
        table: TableKind,
        win: u8,
        min_delay: u64,
        /// message indices as the sorter sees them: 0 = unique (file order), 1 = every ECU numbers from 0 (merged
        /// sources that were numbered separately), 2 = all 0 (constructed messages)
        #[serde(default)]
        reindex: u8,
    },
    Order {
        lcs: Vec<(u8, u64)>,
        msgs: Vec<OrderMsg>,
        win: u8,
        min_delay: u64,
        /// lifecycles (by position in `lcs`) that are resume lifecycles whose start time was adjusted to
        /// before the start of the lifecycle they resumed (the displayed start differs from the start then)
        #[serde(default)]
        resumed: Vec<usize>,
    },
}

fn gen_order(rng: &mut Rng, tier: Tier) -> Case {
    let win = *rng.pick(&[1u8, 2, 3, 10, 255]);
    // one case in five with a minimum delay beyond the sorter's own 1000 s start-up allowance, up to the
    // largest value the parameter can hold
    let min_delay = if rng.sub("bigdelay").chance(1, 5) {
        *rng.sub("bigdelay2").pick(&[1_000_000_001u64, 1_500_000_000, 3_600_000_000, u64::MAX / 2, u64::MAX - 1_000_000_000, u64::MAX - 10, u64::MAX])
    } else {
        *rng.pick(&[0u64, 1_000, 2_000_000, 20_000_000])
    };
    // with a large minimum delay the recording starts long after the lifecycles did, so that delays up to the bound exist
    let rx_shift = if min_delay > 20_000_000 { min_delay.min(rng.sub("rxshift").range(900_000_000, 5_000_000_000)) } else { 0 };
    let n_ecu = rng.urange(1, 3);
    let mut lcs: Vec<(u8, u64)> = vec![];
    let base = WALL_BASE_US + rng.below(1_000_000_000);
    // per ecu a sequence of lifecycles; starts increasing
    let mut per_ecu: Vec<Vec<usize>> = vec![];
    for e in 0..n_ecu {
        let n = rng.urange(1, 3);
        let mut s = base + rng.below(50_000_000);
        let mut v = vec![];
        for _ in 0..n {
            v.push(lcs.len());
            lcs.push((e as u8, s));
            s += rng.range(5_000_000, 300_000_000);
        }
        per_ecu.push(v);
    }
    let n = rng.urange(2, tier.pick(150, 300));
    let mut msgs = vec![];
    let mut rx = base + 60_000_000 + rng.below(10_000_000) + rx_shift;
    let mut active: Vec<usize> = vec![0; n_ecu];
    for _ in 0..n {
        rx += match rng.below(6) {
            0 => 0,
            1 => rng.below(1_000),
            2 => rng.below(100_000),
            3 => rng.below(2_000_000),
            4 => rng.below(30_000_000),
            _ => rng.below(500_000),
        };
        let e = rng.usize(n_ecu);
        // move on to the ECU's next lifecycle once its start has passed (sometimes)
        if active[e] + 1 < per_ecu[e].len() && lcs[per_ecu[e][active[e] + 1]].1 <= rx && rng.chance(1, 3) {
            active[e] += 1;
        }
        let li = per_ecu[e][active[e]];
        let s = lcs[li].1;
        if rng.chance(1, 15) {
            msgs.push(OrderMsg { lc: li, rx_us: rx, ts: rng.u32(), ctrl_req: true });
            continue;
        }
        if rx < s {
            continue;
        }
        // buffering delay within the bound (or "negative": calculated time beyond reception, capped)
        let delay: i64 = match rng.below(6) {
            0 => 0,
            1 => -(rng.below(5_000_000) as i64),
            2 => min_delay.saturating_sub(100).min(i64::MAX as u64) as i64,
            _ if min_delay > 20_000_000 => rng.below(min_delay.saturating_sub(100).min(rx - s) + 1) as i64,
            _ => rng.below(min_delay.saturating_sub(100) + 1) as i64,
        };
        let target = rx as i64 - delay - s as i64;
        if target < 0 {
            continue;
        }
        // ceil to deci-ms so that the calculated time is never earlier than the target
        let ts = ((target as u64) + 99) / 100;
        if ts > u32::MAX as u64 {
            continue;
        }
        msgs.push(OrderMsg { lc: li, rx_us: rx, ts: ts as u32, ctrl_req: false });
    }
    let resumed: Vec<usize> = (0..lcs.len()).filter(|_| rng.chance(1, 5)).collect();
    Case::Order { lcs, msgs, win, min_delay, resumed }
}

fn new_table() -> (adlt::lifecycle::LcsRType, evmap::WriteHandle<LifecycleId, Lifecycle, (), NoHash>) {
    evmap::Options::default()
        .with_hasher(NoHash::default())
        .construct::<LifecycleId, Lifecycle>()
}

fn run_sort(
    input: Vec<DltMessage>,
    lcs_r: &adlt::lifecycle::LcsRType,
    win: u8,
    min_delay: u64,
) -> (Vec<DltMessage>, bool) {
    let (tx, rx) = sstd::sync::mpsc::channel();
    for m in input {
        tx.send(m).unwrap();
    }
    drop(tx);
    let out = std::cell::RefCell::new(vec![]);
    let r = adlt::utils::buffer_sort_messages(rx, &|m| { out.borrow_mut().push(m); Ok(()) }, lcs_r, win, min_delay);
    (out.into_inner(), r.is_ok())
}

pub struct C10;
impl Check for C10 {
    type Case = Case;
    const ID: &'static str = "C10";
    fn runs(t: Tier) -> u64 {
        t.pick(200_000, 6_000_000)
    }
    fn generate(rng: &mut Rng, tier: Tier, idx: u64) -> Case {
        if idx % 2 == 0 {
            gen_order(&mut rng.sub("order"), tier)
        } else {
            let mut t = gen_trace_case(rng, tier, false);
            t.split = 0;
            let mut k = rng.sub("sortknobs");
            let table = match k.below(4) {
                0 | 1 => TableKind::Real,
                // i64::MAX / i64::MIN stand for the start times u64::MAX (what a merged-away lifecycle carries) and 0
                2 => TableKind::Shifted((0..4).map(|_| match k.below(12) { 0 => i64::MAX, 1 => i64::MIN, _ => k.range(0, 200_000_000) as i64 - 100_000_000 }).collect()),
                _ => TableKind::Empty,
            };
            Case::Perm {
                t,
                table,
                win: *k.pick(&[1u8, 2, 3, 10, 255]),
                min_delay: *k.pick(&[0u64, 1_000, 2_000_000, 20_000_000, 1_500_000_000, u64::MAX - 10, u64::MAX]),
                reindex: *k.pick(&[0u8, 0, 0, 0, 1, 2]),
            }
        }
    }
    fn run(c: &Case, ctx: &mut Ctx) -> Result<(), Violation> {
        match c {
            Case::Perm { t, table, win, min_delay, reindex } => {
                if *win == 0 {
                    return Ok(());
                }
                let reindex = *reindex;
                if reindex != 0 {
                    ctx.probe("perm_runs_with_repeated_indices");
                }
                record_world(t, ctx);
                ctx.sig.u64(1);
                ctx.sig.u64(*win as u64 ^ min_delay);
                let res = sh::slot((Vec::<DltMessage>::new(), Vec::<DltMessage>::new(), false));
                let res2 = res.clone();
                let msgs = std::sync::Arc::new(to_dlts(&t.trace, t.index_base));
                let table = table.clone();
                let (win, min_delay) = (*win, *min_delay);
                crate::lc::align_lc_ids();
                sh::run(&SchedCfg::simple(), ctx, move || {
                    let (lcs_r, lcs_w) = new_table();
                    let (tx, rx) = sstd::sync::mpsc::channel();
                    for m in msgs.iter() {
                        tx.send(m.clone()).unwrap();
                    }
                    drop(tx);
                    let staged = std::cell::RefCell::new(vec![]);
                    let lcs_w = parse_lifecycles_buffered_from_stream(lcs_w, rx, &|m| { staged.borrow_mut().push(m); Ok(()) });
                    let mut staged = staged.into_inner();
                    if reindex != 0 {
                        let mut per_ecu: HashMap<[u8; 4], u32> = HashMap::new();
                        for m in staged.iter_mut() {
                            let c = per_ecu.entry(*m.ecu.as_buf()).or_insert(0);
                            m.index = if reindex == 1 { *c } else { 0 };
                            *c += 1;
                        }
                    }
                    let (sorted, ok) = match &table {
                        TableKind::Real => run_sort(staged.clone(), &lcs_r, win, min_delay),
                        TableKind::Empty => {
                            let (r2, w2) = new_table();
                            let x = run_sort(staged.clone(), &r2, win, min_delay);
                            drop(w2);
                            x
                        }
                        TableKind::Shifted(offs) => {
                            let (r2, mut w2) = new_table();
                            if let Some(rd) = lcs_r.read() {
                                let mut ids: Vec<LifecycleId> = rd.iter().map(|(id, _)| *id).collect();
                                ids.sort();
                                for (i, id) in ids.iter().enumerate() {
                                    if i % 5 == 4 {
                                        continue; // some lifecycles are unknown to the stale table
                                    }
                                    let mut lc: Lifecycle = rd.get_one(id).unwrap().clone();
                                    let o = offs[i % offs.len()];
                                    lc.start_time = if o == i64::MAX { u64::MAX } else if o == i64::MIN { 0 } else { (lc.start_time as i64 + o).max(0) as u64 };
                                    w2.insert(*id, lc);
                                }
                            }
                            w2.refresh();
                            let x = run_sort(staged.clone(), &r2, win, min_delay);
                            drop(w2);
                            x
                        }
                    };
                    *res2.lock().unwrap() = (staged, sorted, ok);
                    drop(lcs_w);
                })?;
                let (staged, sorted, ok) = res.lock().unwrap().clone();
                if !ok {
                    viol!("sort-error", "buffer_sort_messages returned an error although the consumer stayed");
                }
                if sorted.len() != staged.len() {
                    viol!("sort-count", "{} messages in, {} out", staged.len(), sorted.len());
                }
                if reindex != 0 {
                    // indices repeat: compare the multisets of whole messages
                    let key = |m: &DltMessage| (m.index, *m.ecu.as_buf(), m.reception_time_us, m.timestamp_dms, m.lifecycle, m.standard_header.mcnt, m.payload.clone());
                    let mut a: Vec<_> = staged.iter().map(key).collect();
                    let mut b: Vec<_> = sorted.iter().map(key).collect();
                    a.sort();
                    b.sort();
                    if a != b {
                        let first = a.iter().zip(b.iter()).position(|(x, y)| x != y).unwrap_or(std::cmp::min(a.len(), b.len()));
                        viol!("sort-multiset", "with repeated message indices ({}) the output is not a permutation of the input: sorted multisets differ at {} of {} ({} out)", if reindex == 1 { "every ECU numbered from 0" } else { "all 0" }, first, a.len(), b.len());
                    }
                    ctx.event_u64(sorted.len() as u64);
                    ctx.probe("permutation_runs");
                    ctx.nontrivial = staged.len() > 1;
                    return Ok(());
                }
                let by_index: HashMap<u32, &DltMessage> = staged.iter().map(|m| (m.index, m)).collect();
                let mut seen = std::collections::HashSet::new();
                for m in sorted.iter() {
                    if !seen.insert(m.index) {
                        viol!("sort-duplicate", "message {} delivered twice", m.index);
                    }
                    match by_index.get(&m.index) {
                        None => viol!("sort-foreign", "message {} was never put in", m.index),
                        Some(o) => {
                            if *o != m {
                                viol!("sort-altered", "message {} was altered by sorting", m.index);
                            }
                        }
                    }
                }
                ctx.event_u64(sorted.len() as u64);
                for m in sorted.iter().take(50) {
                    ctx.event_u64(m.index as u64);
                }
                ctx.probe("permutation_runs");
                ctx.nontrivial = staged.len() > 1;
                Ok(())
            }
            Case::Order { lcs, msgs, win, min_delay, resumed } => {
                if *win == 0 || lcs.is_empty() {
                    return Ok(());
                }
                ctx.sig.u64(2);
                ctx.sig.u64(msgs.len() as u64);
                for m in msgs.iter().take(40) {
                    ctx.sig.u64(m.rx_us ^ ((m.ts as u64) << 17));
                }
                // precondition on the concrete case
                let mut last_rx = 0;
                for m in msgs {
                    if m.lc >= lcs.len() || m.rx_us < last_rx {
                        return Ok(());
                    }
                    last_rx = m.rx_us;
                    if !m.ctrl_req {
                        let calc = std::cmp::min(lcs[m.lc].1 + m.ts as u64 * 100, m.rx_us);
                        if m.rx_us - calc > *min_delay {
                            return Ok(());
                        }
                    }
                }
                if let (Some(a), Some(b)) = (msgs.first(), msgs.last()) {
                    ctx.sim_time((b.rx_us - a.rx_us) as u128 * 1000);
                }
                let res = sh::slot((Vec::<(u32, u64)>::new(), Vec::<u32>::new(), false));
                let res2 = res.clone();
                let lcs = lcs.clone();
                let resumed = resumed.clone();
                let built = std::sync::Arc::new(std::sync::atomic::AtomicU64::new(0));
                let built2 = built.clone();
                let msgs2 = msgs.clone();
                let (win, min_delay) = (*win, *min_delay);
                crate::lc::align_lc_ids();
                sh::run(&SchedCfg::simple(), ctx, move || {
                    let (lcs_r, mut lcs_w) = new_table();
                    let mut ids = vec![];
                    for (li, (e, start)) in lcs.iter().enumerate() {
                        let mut dummy = TMsg { ecu: *e, boot: 0, rx_us: *start, ts: 0, has_ts: true, kind: K_LOG, app: 0, mcnt: 0, n: 0, flags: 0 }.to_dlt(0);
                        let mut lc = Lifecycle::new(&mut dummy);
                        if resumed.contains(&li) {
                            // a resume lifecycle as the lifecycle detection makes it: a message 20 s after the last one of a
                            // lifecycle that started 5 s after `start`; its own start is adjusted to `start` afterwards
                            let mut first = TMsg { ecu: *e, boot: 0, rx_us: start.saturating_add(5_000_000), ts: 0, has_ts: true, kind: K_LOG, app: 0, mcnt: 0, n: 0, flags: 0 }.to_dlt(0);
                            let mut prev = Lifecycle::new(&mut first);
                            let mut second = TMsg { ecu: *e, boot: 0, rx_us: start.saturating_add(25_000_000), ts: 0, has_ts: true, kind: K_LOG, app: 0, mcnt: 0, n: 0, flags: 0 }.to_dlt(1);
                            if let Some(l) = prev.update(&mut second, 60_000_000) {
                                if l.is_resume() {
                                    lc = l;
                                    built2.fetch_add(1, std::sync::atomic::Ordering::Relaxed);
                                }
                            }
                        }
                        lc.start_time = *start;
                        ids.push(lc.id());
                        lcs_w.insert(lc.id(), lc);
                    }
                    lcs_w.refresh();
                    let mut input = vec![];
                    let mut expect: Vec<(u32, u64)> = vec![];
                    for (i, m) in msgs2.iter().enumerate() {
                        let t = TMsg {
                            ecu: lcs[m.lc].0,
                            boot: 0,
                            rx_us: m.rx_us,
                            ts: m.ts,
                            has_ts: true,
                            kind: if m.ctrl_req { K_CTRL_REQ } else { K_LOG },
                            app: (i % 7) as u8,
                            mcnt: i as u8,
                            n: i as u32,
                            flags: 0,
                        };
                        let mut d = t.to_dlt(i as u32);
                        d.lifecycle = ids[m.lc];
                        let calc = if m.ctrl_req { m.rx_us } else { std::cmp::min(lcs[m.lc].1 + m.ts as u64 * 100, m.rx_us) };
                        expect.push((i as u32, calc));
                        input.push(d);
                    }
                    let (sorted, ok) = run_sort(input, &lcs_r, win, min_delay);
                    expect.sort_by_key(|(i, c)| (*c, *i));
                    *res2.lock().unwrap() = (expect, sorted.iter().map(|m| m.index).collect(), ok);
                    drop(lcs_w);
                })?;
                let (expect, got, ok) = res.lock().unwrap().clone();
                ctx.probe_n("resume_lifecycles_starting_before_the_resumed_one", built.load(std::sync::atomic::Ordering::Relaxed));
                if !ok {
                    viol!("sort-error", "buffer_sort_messages returned an error");
                }
                if got.len() != expect.len() {
                    viol!("sort-count", "{} messages in, {} out", expect.len(), got.len());
                }
                for (p, ((ei, ec), gi)) in expect.iter().zip(got.iter()).enumerate() {
                    if ei != gi {
                        viol!("sort-order", "position {}: got message {} but message {} (calculated time {}) is due; window {} s, minimum delay {} us", p, gi, ei, ec, win, min_delay);
                    }
                }
                let moved = expect.iter().enumerate().filter(|(p, (i, _))| *p as u32 != *i).count();
                ctx.probe_n("messages_reordered_by_sort", moved as u64);
                ctx.probe("order_runs");
                if min_delay > 1_000_000_000 {
                    ctx.probe("order_runs_with_minimum_delay_above_1000s");
                }
                for g in got.iter().take(50) {
                    ctx.event_u64(*g as u64);
                }
                ctx.nontrivial = moved > 0;
                Ok(())
            }
        }
    }
    fn shrink(c: &Case) -> Vec<Case> {
        let mut out = vec![];
        match c {
            Case::Perm { t, table, win, min_delay, reindex } => {
                for t2 in shrink_trace_case(t) {
                    out.push(Case::Perm { t: t2, table: table.clone(), win: *win, min_delay: *min_delay, reindex: *reindex });
                }
                if !matches!(table, TableKind::Real) {
                    out.push(Case::Perm { t: t.clone(), table: TableKind::Real, win: *win, min_delay: *min_delay, reindex: *reindex });
                }
            }
            Case::Order { lcs, msgs, win, min_delay, resumed } => {
                for m in shrink_vec(msgs) {
                    out.push(Case::Order { lcs: lcs.clone(), msgs: m, win: *win, min_delay: *min_delay, resumed: resumed.clone() });
                }
                if *win != 3 {
                    out.push(Case::Order { lcs: lcs.clone(), msgs: msgs.clone(), win: 3, min_delay: *min_delay, resumed: resumed.clone() });
                }
                for r in shrink_vec(resumed) {
                    out.push(Case::Order { lcs: lcs.clone(), msgs: msgs.clone(), win: *win, min_delay: *min_delay, resumed: r });
                }
            }
        }
        out
    }
    fn rule() -> &'static str {
        "two kinds of runs: (perm) a simulated world (as C05) through the real lifecycle stage and then the real sorter with the real table, a shifted/partial stale table (start times moved by up to 100 s, or set to 0 or u64::MAX) or an empty table, window in {1,2,3,10,255} s, minimum delay in {0, 1 ms, 2 s, 20 s, 1500 s, u64::MAX-10, u64::MAX}: output must be a permutation with every message unchanged (in a third of these runs the messages reach the sorter renumbered per ECU from 0 or all with index 0, and multisets of whole messages are compared); (order) 1-3 ECUs x 1-3 lifecycles with given start times (a fifth of them resume lifecycles whose start lies before the start of the lifecycle they resumed, so that start and displayed start differ), reception times never decreasing (ties included), per-message buffering delay within the configured minimum (a fifth of the cases with a minimum beyond the sorter's 1000 s start-up allowance: 1000.000001 s, 1500 s, 1 h, u64::MAX/2 ... u64::MAX, the recording then starting up to 5000 s after the lifecycles; incl. exactly at the bound and 'negative' = capped), control requests interspersed: output must be ordered by (calculated time, original position); precondition re-checked on the concrete case; non-trivial = the sorter had to move at least one message / more than one message; distinct = hash of the case"
    }
    fn assumptions() -> Vec<&'static str> {
        vec!["calculated time as stated: min(lifecycle start + timestamp, reception time), reception time for control requests; lifecycle start taken from the table handed to the sorter"]
    }
    fn real_components() -> Vec<&'static str> {
        vec!["adlt::utils::buffer_sort_messages", "adlt::lifecycle::parse_lifecycles_buffered_from_stream", "evmap"]
    }
    fn stub_components() -> Vec<&'static str> {
        vec!["world model / order-case generator", "producer and consumer of the stage"]
    }
    fn required_reach() -> Vec<&'static str> {
        vec!["messages_reordered_by_sort", "order_runs", "order_runs_with_minimum_delay_above_1000s", "permutation_runs"]
    }
}
