//! C20 (ii) — archive extraction into a sandbox with canary surroundings.

use crate::c20::{Case, Member};
use crate::fw::{Ctx, Tier, Violation};
use crate::rng::Rng;
use crate::viol;
use std::collections::{BTreeMap, BTreeSet};
use std::io::Write;
use std::path::{Path, PathBuf};
use std::sync::atomic::AtomicBool;
use std::sync::Arc;

pub fn root_dir() -> PathBuf {
    let base = std::env::var("VERIF_TMP").unwrap_or_else(|_| "/verif/sim/target/tmp".to_string());
    PathBuf::from(base).join(format!("c20-{}", std::process::id()))
}

pub fn maybe_gen_extract(rng: &mut Rng, _tier: Tier, idx: u64) -> Option<Case> {
    // one in 5 runs is an extraction run (they touch the real file system, ~1 ms each)
    if idx % 5 != 2 {
        return None;
    }
    let mut r = rng.sub("extract");
    let esc_abs = "@ROOT@/abs_escape/evil3.dlt".to_string();
    let file_names: Vec<String> = vec![
        "a.dlt".into(),
        "b.txt".into(),
        "d1/b.dlt".into(),
        "d1/d2/c.dlt".into(),
        "d1/d2/c.txt".into(),
        "x y.dlt".into(),
        "\u{fc}.dlt".into(),
        "[1].dlt".into(),
        "d1/../e.dlt".into(),
        "../evil.dlt".into(),
        "../../evil2.dlt".into(),
        esc_abs,
        "d1/../../evil4.dlt".into(),
        "d3/./f.dlt".into(),
        "empty.bin".into(),
        "UPPER.DLT".into(),
        "d1/d2/d4/deep.dlt".into(),
        "..".into(),
        // aliases: different member names that denote the same file
        "d3/f.dlt".into(),
        "e.dlt".into(),
        "d1/./b.dlt".into(),
        // escapes hidden behind a leading "./"
        "./../evil.dlt".into(),
        "./d1/../../evil.dlt".into(),
        "./ok.dlt".into(),
    ];
    let dir_names = ["d1/", "d1/d2/", "d9/", "../dx/"];
    let n = r.urange(1, 8);
    let mut members = vec![];
    let mut used = BTreeSet::new();
    for _ in 0..n {
        if r.chance(1, 6) {
            let d = r.pick(&dir_names).to_string();
            if used.insert(d.clone()) {
                members.push(Member { name: d, data: vec![], is_dir: true });
            }
        } else {
            let f = r.pick(&file_names).clone();
            if used.insert(f.clone()) {
                let l = if f == "empty.bin" || r.chance(1, 8) {
                    0
                } else {
                    match r.below(4) {
                        0 => r.urange(1, 20),
                        1 => r.urange(21, 3000),
                        2 => r.urange(1000, 6000),
                        _ => r.urange(60_000, 140_000),
                    }
                };
                members.push(Member { name: f, data: r.bytes(l), is_dir: false });
            }
        }
    }
    let pats = [
        "**/*", "*.dlt", "**/*.dlt", "d1/*", "d1/**/*", "*", "../*", "nonexistent", "[1].dlt",
        "d1/d2/c.dlt", "**/c.*", "a.dlt", "?.dlt", "**/*.DLT", "d1/../e.dlt", "", "[",
    ];
    let ng = r.urange(1, 2);
    let mut globs = vec![];
    for _ in 0..ng {
        let g = if r.chance(1, 5) && !members.is_empty() {
            r.pick(&members).name.clone()
        } else {
            r.pick(&pats).to_string()
        };
        // three spellings: "<zip>/<glob>", "<zip>!/<glob>", plain "<zip>"
        let sp = match r.below(5) {
            0 => format!("!/{}", g),
            1 if g == "**/*" => String::new(),
            _ => format!("/{}", g),
        };
        globs.push(sp);
    }
    Some(Case::Extract {
        members,
        globs,
        uniq: r.next_u64(),
        // Some(0): cancelled before the start; Some(k): a request is cancelled once k permille (of 1.1 x the archive size) have
        // been read from the archive, then the same request is repeated without cancellation into the same directory
        cancel_after: match r.below(12) {
            0 => Some(0),
            1 | 2 => Some(1 + r.below(1000) as usize),
            _ => None,
        },
        prior: if r.chance(1, 3) {
            (0..r.urange(1, 3)).map(|i| Member { name: format!("prior{}/p{}.dlt", i, r.below(100)), data: r.bytes(20), is_dir: false }).collect()
        } else {
            vec![]
        },
    })
}

fn build_zip(members: &[Member], deflate: bool) -> Result<Vec<u8>, String> {
    let mut zw = zip::ZipWriter::new(std::io::Cursor::new(Vec::new()));
    for (i, m) in members.iter().enumerate() {
        let method = if deflate && i % 2 == 1 {
            zip::CompressionMethod::Deflated
        } else {
            zip::CompressionMethod::Stored
        };
        let opt = zip::write::SimpleFileOptions::default().compression_method(method);
        if m.is_dir {
            zw.add_directory(m.name.clone(), opt).map_err(|e| e.to_string())?;
        } else {
            zw.start_file(m.name.clone(), opt).map_err(|e| e.to_string())?;
            zw.write_all(&m.data).map_err(|e| e.to_string())?;
        }
    }
    Ok(zw.finish().map_err(|e| e.to_string())?.into_inner())
}

/// does the member name stay inside the extraction directory? (independent of the zip crate)
fn stays_inside(name: &str) -> bool {
    if name.starts_with('/') || name.contains('\0') {
        return false;
    }
    let mut depth: i64 = 0;
    for c in name.split('/') {
        match c {
            "" | "." => {}
            ".." => {
                depth -= 1;
                if depth < 0 {
                    return false;
                }
            }
            _ => depth += 1,
        }
    }
    true
}

fn normalise(name: &str) -> PathBuf {
    let mut v: Vec<&str> = vec![];
    for c in name.split('/') {
        match c {
            "" | "." => {}
            ".." => {
                v.pop();
            }
            x => v.push(x),
        }
    }
    v.iter().collect()
}

fn snapshot(root: &Path, skip: &[PathBuf]) -> BTreeMap<PathBuf, (u64, u64)> {
    let mut m = BTreeMap::new();
    let mut stack = vec![root.to_path_buf()];
    while let Some(d) = stack.pop() {
        if let Ok(rd) = std::fs::read_dir(&d) {
            for e in rd.flatten() {
                let p = e.path();
                if skip.iter().any(|s| p.starts_with(s)) {
                    continue;
                }
                if let Ok(md) = std::fs::symlink_metadata(&p) {
                    if md.is_dir() {
                        m.insert(p.clone(), (u64::MAX, 0));
                        stack.push(p);
                    } else {
                        let h = std::fs::read(&p).map(|b| crate::rng::fnv1a(&b)).unwrap_or(0);
                        m.insert(p, (md.len(), h));
                    }
                }
            }
        }
    }
    m
}

pub fn run_extract(
    members: &[Member],
    globs: &[String],
    uniq: u64,
    cancel_after: Option<usize>,
    prior: &[Member],
    ctx: &mut Ctx,
) -> Result<(), Violation> {
    let r = run_extract_inner(members, globs, uniq, cancel_after, prior, ctx);
    if std::env::var("VERIF_KEEP").is_err() {
        let _ = std::fs::remove_dir_all(root_dir());
    }
    r
}

fn run_extract_inner(
    members: &[Member],
    globs: &[String],
    uniq: u64,
    cancel_after: Option<usize>,
    prior: &[Member],
    ctx: &mut Ctx,
) -> Result<(), Violation> {
    let root = root_dir();
    let sandbox = root.join("sandbox");
    let tmp = sandbox.join("tmp");
    let work = sandbox.join("work");
    let _ = std::fs::remove_dir_all(&root);
    std::fs::create_dir_all(&tmp).unwrap();
    std::fs::create_dir_all(&work).unwrap();
    std::fs::write(root.join("outer_canary.txt"), b"outer").unwrap();
    std::fs::write(sandbox.join("sibling_canary.txt"), b"sibling").unwrap();
    std::fs::write(tmp.join("evil.dlt"), b"pre-existing neighbour of the temp dirs").unwrap();
    std::env::set_var("TMPDIR", &tmp);
    for m in members {
        ctx.sig.str(&m.name);
    }
    for g in globs {
        ctx.sig.str(g);
    }
    let members: Vec<Member> = members
        .iter()
        .map(|m| Member { name: m.name.replace("@ROOT@", &root.display().to_string()), ..m.clone() })
        .collect();
    let members = &members[..];
    let zipbytes = match build_zip(members, uniq % 2 == 0) {
        Ok(b) => b,
        Err(_) => {
            ctx.probe("zip_writer_refused_name");
            let _ = std::fs::remove_dir_all(&root);
            return Ok(());
        }
    };
    // single file or multi-volume on disk (the real SeekableChain<File> path)
    let nvol = (uniq >> 8) % 4; // 0 = plain .zip
    // unique archive path per *execution* (adlt caches archive listings by path for 60 s)
    static EXEC: std::sync::atomic::AtomicU64 = std::sync::atomic::AtomicU64::new(0);
    let exec = EXEC.fetch_add(1, std::sync::atomic::Ordering::SeqCst);
    // same file name in a directory of its own per execution (listings are cached per path, not per name)
    let dir = work.join(format!("e{:016x}-{}", uniq, exec));
    std::fs::create_dir_all(&dir).unwrap();
    let base = dir.join("archive.zip");
    let first: PathBuf;
    if nvol == 0 {
        std::fs::write(&base, &zipbytes).unwrap();
        first = base.clone();
    } else {
        let n = nvol as usize + 1;
        let chunk = std::cmp::max(1, zipbytes.len() / n);
        let mut off = 0;
        let mut k = 1;
        first = PathBuf::from(format!("{}.001", base.display()));
        while off < zipbytes.len() {
            let end = if k as usize == n { zipbytes.len() } else { std::cmp::min(zipbytes.len(), off + chunk) };
            std::fs::write(format!("{}.{:03}", base.display(), k), &zipbytes[off..end]).unwrap();
            off = end;
            k += 1;
        }
        ctx.probe("multi_volume_on_disk");
    }
    ctx.cfg("hostile_member_name");
    if members.iter().any(|m| !m.is_dir && !stays_inside(&m.name)) {
        ctx.fired("hostile_member_name");
    }
    ctx.cfg("cancelled_while_extracting");
    if let Some(k) = cancel_after {
        if k > 0 {
            let r = run_cancel_history(members, &zipbytes, k, uniq, &sandbox, ctx);
            ctx.nontrivial = !members.is_empty();
            ctx.sim_time(1000);
            return r;
        }
    }
    ctx.cfg("cancelled_before_start");
    let before = snapshot(&root, &[work.clone()]);
    let log = slog::Logger::root(slog::Discard, slog::o!());
    let cancel = Arc::new(AtomicBool::new(false));
    if cancel_after == Some(0) {
        cancel.store(true, std::sync::atomic::Ordering::SeqCst);
        ctx.fired("cancelled_before_start");
    }
    let mut temp_dirs: Vec<(String, tempfile::TempDir)> = vec![];
    if !prior.is_empty() {
        // history: an archive with the same file name in another directory was opened before
        if let Ok(pz) = build_zip(prior, false) {
            let pdir = work.join(format!("p{:016x}-{}", uniq, exec));
            std::fs::create_dir_all(&pdir).unwrap();
            let pp = pdir.join("archive.zip");
            std::fs::write(&pp, pz).unwrap();
            let never = Arc::new(AtomicBool::new(false));
            let _ = adlt::utils::unzip::extract_archives(format!("{}!/**/*", pp.display()), &mut temp_dirs, &never, &log);
            ctx.probe("same_named_archive_opened_before");
        }
    }
    let mut all_reported: Vec<(String, Vec<String>)> = vec![];
    for g in globs {
        let arg = format!("{}{}", first.display(), g);
        let res = adlt::utils::unzip::extract_archives(arg.clone(), &mut temp_dirs, &cancel, &log);
        all_reported.push((arg, res));
    }
    let temp_paths: Vec<PathBuf> = temp_dirs.iter().map(|(_, d)| d.path().to_path_buf()).collect();
    // (1) confinement: nothing outside the temp dirs changed
    let after = snapshot(&root, &[work.clone()]);
    for (p, v) in after.iter() {
        if temp_paths.iter().any(|t| p.starts_with(t)) {
            continue;
        }
        match before.get(p) {
            None => viol!("extract-escape", "created outside the temporary directory: {} (members {:?})", p.display(), members.iter().map(|m| &m.name).collect::<Vec<_>>()),
            Some(b) if b != v => viol!("extract-escape", "changed outside the temporary directory: {}", p.display()),
            _ => {}
        }
    }
    for p in before.keys() {
        if !after.contains_key(p) {
            viol!("extract-escape", "removed outside the temporary directory: {}", p.display());
        }
    }
    // (2)+(3) per request: reported == expected, contents faithful
    for ((arg, res), g) in all_reported.iter().zip(globs.iter()) {
        let pat_str: &str = if g.is_empty() { "**/*" } else { &g[g.find('/').map(|i| i + 1).unwrap_or(0)..] };
        let bang = g.starts_with('!');
        let pattern = match glob::Pattern::new(pat_str) {
            Ok(p) => Some(p),
            Err(_) if bang => glob::Pattern::new(&glob::Pattern::escape(pat_str)).ok(),
            Err(_) => None,
        };
        let refused = res.len() == 1 && res[0] == *arg;
        let pattern = match pattern {
            Some(p) if !pat_str.is_empty() || g.is_empty() || bang => p,
            _ => {
                // not a valid archive glob: must be handed back untouched
                ctx.probe("invalid_pattern");
                if !refused {
                    viol!("extract-invalid-pattern", "{}: invalid pattern but result {:?}", arg, res);
                }
                continue;
            }
        };
        if cancel_after == Some(0) {
            // cancelled: nothing may be reported as extracted
            let none_expected = !members.iter().any(|m| !m.is_dir && (m.name == pattern.as_str() || pattern.matches(&m.name)));
            if !(refused || (res.is_empty() && none_expected)) {
                viol!("extract-after-cancel", "{}: cancelled but reported {:?}", arg, res);
            }
            continue;
        }
        let single_data = members.len() == 1 && members[0].name == "data";
        if single_data {
            continue;
        }
        // several member names may denote the same file (d3/f.dlt, d3/./f.dlt): the file then has to be
        // identical to one of those members (which one depends on earlier requests into the same directory)
        let mut expected: BTreeMap<PathBuf, Vec<&Member>> = BTreeMap::new();
        for m in members.iter().filter(|m| !m.is_dir && !m.name.ends_with('/')) {
            if (m.name == pattern.as_str() || pattern.matches(&m.name)) && stays_inside(&m.name) {
                expected.entry(normalise(&m.name)).or_default();
            }
        }
        for m in members.iter().filter(|m| !m.is_dir && !m.name.ends_with('/') && stays_inside(&m.name)) {
            if let Some(v) = expected.get_mut(&normalise(&m.name)) {
                v.push(m);
            }
        }
        if expected.values().any(|v| v.len() > 1) {
            ctx.probe("alias_member_names");
        }
        if refused {
            // acceptable only if extraction legitimately failed; with a well-formed archive it must not
            viol!("extract-refused", "{}: handed back as plain file although it is a well-formed archive with a valid pattern", arg);
        }
        let mut got: BTreeSet<PathBuf> = BTreeSet::new();
        for r in res {
            let rp = PathBuf::from(r);
            let t = temp_paths.iter().find(|t| rp.starts_with(t));
            let t = match t {
                Some(t) => t,
                None => viol!("extract-reported-outside", "{}: reported path {} is not inside a temporary directory", arg, r),
            };
            let rel = rp.strip_prefix(t).unwrap().to_string_lossy().to_string();
            got.insert(normalise(&rel));
            let canon = match std::fs::canonicalize(&rp) {
                Ok(c) => c,
                Err(e) => viol!("extract-reported-missing", "{}: reported {} does not exist: {}", arg, r, e),
            };
            let tcanon = std::fs::canonicalize(t).unwrap();
            if !canon.starts_with(&tcanon) {
                viol!("extract-escape", "{}: reported {} resolves outside the temporary directory", arg, r);
            }
        }
        // one reported entry per matching member: a member that was not requested must not be extracted on
        // top of an alias that was
        let n_matching = members.iter().filter(|m| !m.is_dir && !m.name.ends_with('/') && (m.name == pattern.as_str() || pattern.matches(&m.name)) && stays_inside(&m.name)).count();
        if res.len() != n_matching && !refused {
            viol!("extract-count", "{}: {} entries reported ({:?}) but {} members match the pattern and stay inside (members {:?})", arg, res.len(), res, n_matching, members.iter().map(|m| &m.name).collect::<Vec<_>>());
        }
        let exp_set: BTreeSet<PathBuf> = expected.keys().cloned().collect();
        if got != exp_set {
            viol!(
                "extract-set",
                "{}: reported {:?} but expected {:?} (members {:?}, archive listing {:?})",
                arg, got, exp_set, members.iter().map(|m| &m.name).collect::<Vec<_>>(),
                zip::ZipArchive::new(std::io::Cursor::new(&zipbytes)).map(|z| z.file_names().map(|s| s.to_string()).collect::<Vec<_>>()).unwrap_or_default()
            );
        }
        if let Some(t) = temp_paths.iter().find(|t| res.iter().any(|r| Path::new(r).starts_with(t))) {
            for (rel, ms) in expected.iter() {
                let p = t.join(rel);
                match std::fs::read(&p) {
                    Ok(b) if ms.iter().any(|m| b == m.data) => {}
                    Ok(b) => viol!("extract-content", "{}: {} has {} bytes, identical to none of the members {:?} ({:?} bytes)", arg, p.display(), b.len(), ms.iter().map(|m| &m.name).collect::<Vec<_>>(), ms.iter().map(|m| m.data.len()).collect::<Vec<_>>()),
                    Err(e) => viol!("extract-content", "{}: cannot read {}: {}", arg, p.display(), e),
                }
            }
        }
        ctx.probe_n("members_extracted", expected.len() as u64);
        ctx.event_u64(expected.len() as u64);
    }
    ctx.nontrivial = !members.is_empty();
    ctx.sim_time(1000);
    drop(temp_dirs);
    if std::env::var("VERIF_KEEP").is_err() {
        let _ = std::fs::remove_dir_all(&root);
    }
    Ok(())
}

/// in-memory archive source that raises the cancel flag once `budget` bytes have been handed out
struct TripReader {
    data: Arc<Vec<u8>>,
    pos: u64,
    budget: Arc<std::sync::atomic::AtomicI64>,
    cancel: Arc<AtomicBool>,
    max_read: usize,
}
impl std::io::Read for TripReader {
    fn read(&mut self, buf: &mut [u8]) -> std::io::Result<usize> {
        let avail = (self.data.len() as u64).saturating_sub(self.pos) as usize;
        let n = std::cmp::min(std::cmp::min(buf.len(), avail), self.max_read);
        buf[..n].copy_from_slice(&self.data[self.pos as usize..self.pos as usize + n]);
        self.pos += n as u64;
        if self.budget.fetch_sub(n as i64, std::sync::atomic::Ordering::SeqCst) - (n as i64) <= 0 {
            self.cancel.store(true, std::sync::atomic::Ordering::SeqCst);
        }
        Ok(n)
    }
}
impl std::io::Seek for TripReader {
    fn seek(&mut self, p: std::io::SeekFrom) -> std::io::Result<u64> {
        let np: i128 = match p {
            std::io::SeekFrom::Start(o) => o as i128,
            std::io::SeekFrom::Current(o) => self.pos as i128 + o as i128,
            std::io::SeekFrom::End(o) => self.data.len() as i128 + o as i128,
        };
        if np < 0 {
            return Err(std::io::Error::new(std::io::ErrorKind::InvalidInput, "seek before start"));
        }
        self.pos = np as u64;
        Ok(self.pos)
    }
}
impl adlt::utils::cloneable_seekable_reader::HasLength for TripReader {
    fn len(&self) -> u64 {
        self.data.len() as u64
    }
}

/// history: [a first request for one small member] -> the request cancelled after `k` permille of the archive
/// have been read -> the same request again, not cancelled, into the same directory. Whatever a request
/// reports has to exist with the member's content; a cancelled request reports nothing.
fn run_cancel_history(members: &[Member], zipbytes: &[u8], k: usize, uniq: u64, sandbox: &Path, ctx: &mut Ctx) -> Result<(), Violation> {
    // plain names only; a file that several member names denote (d1/b.dlt, d1/./b.dlt) is left to the alias checks of the other runs
    let aliased = |m: &Member| members.iter().filter(|o| !o.is_dir && normalise(&o.name) == normalise(&m.name)).count() > 1;
    let files: Vec<&Member> = members.iter().filter(|m| !m.is_dir && !m.name.ends_with('/') && stays_inside(&m.name) && normalise(&m.name).to_string_lossy() == m.name.as_str() && !aliased(m)).collect();
    if files.is_empty() {
        return Ok(());
    }
    let dir = sandbox.join("cancel_target");
    std::fs::create_dir_all(&dir).unwrap();
    let data = Arc::new(zipbytes.to_vec());
    let rename: std::collections::HashMap<String, String> = Default::default();
    let with_filter = (uniq >> 20) % 3 != 0;
    let filter: Option<Vec<String>> = if with_filter { Some(files.iter().map(|m| m.name.clone()).collect()) } else { None };
    let check_reported = |what: &str, res: &Vec<PathBuf>| -> Result<(), Violation> {
        for rel in res {
            let m = match files.iter().find(|m| PathBuf::from(&m.name) == *rel) {
                Some(m) => m,
                None => continue, // names outside this leg's population are judged by the other extraction runs
            };
            match std::fs::read(dir.join(rel)) {
                Ok(b) if b == m.data => {}
                Ok(b) => viol!("extract-content-after-cancel", "{}: {} is reported as extracted but has {} of the member's {} bytes (history: request cancelled after {} permille of the archive were read, then repeated into the same directory)", what, rel.display(), b.len(), m.data.len(), k),
                Err(e) => viol!("extract-reported-missing", "{}: reported {} cannot be read: {}", what, rel.display(), e),
            }
        }
        Ok(())
    };
    let never = Arc::new(AtomicBool::new(false));
    let mk = |budget: i64, cancel: &Arc<AtomicBool>| TripReader { data: data.clone(), pos: 0, budget: Arc::new(std::sync::atomic::AtomicI64::new(budget)), cancel: cancel.clone(), max_read: [usize::MAX, 4096, 100][((uniq >> 24) % 3) as usize] };
    if (uniq >> 22) % 2 == 0 {
        // the directory is known from an earlier successful request
        let first = vec![files[0].name.clone()];
        if let Ok(res) = adlt::utils::unzip::extract_to_dir(mk(i64::MAX, &never), &dir, Some(first), &rename, &never) {
            check_reported("first request", &res)?;
        }
    }
    let cancel = Arc::new(AtomicBool::new(false));
    let budget = std::cmp::max(1, (zipbytes.len() as u128 * 11 * k as u128 / 10_000) as i64);
    let r1 = adlt::utils::unzip::extract_to_dir(mk(budget, &cancel), &dir, filter.clone(), &rename, &cancel);
    match &r1 {
        Ok(res) => {
            ctx.probe("cancel_came_too_late");
            check_reported("request with late cancellation", res)?;
        }
        Err(_) => {
            ctx.fired("cancelled_while_extracting");
            // left-overs of the interrupted member?
            let partial = files.iter().any(|m| std::fs::metadata(dir.join(&m.name)).map(|md| md.len() != m.data.len() as u64).unwrap_or(false));
            if partial {
                ctx.probe("partial_file_present_after_cancelled_request");
            }
        }
    }
    let r2 = adlt::utils::unzip::extract_to_dir(mk(i64::MAX, &never), &dir, filter.clone(), &rename, &never);
    match r2 {
        Ok(res) => {
            check_reported("repeated request", &res)?;
            let want: BTreeSet<PathBuf> = files.iter().map(|m| PathBuf::from(&m.name)).collect();
            let got: BTreeSet<PathBuf> = res.iter().filter(|r| want.contains(*r)).cloned().collect();
            if got != want {
                viol!("extract-set-after-cancel", "repeated request reported {:?} of the requested {:?}", got, want);
            }
            ctx.probe("repeated_request_after_cancel_checked");
        }
        Err(e) => viol!("extract-refused", "repeated request failed on a well-formed archive: {}", e),
    }
    Ok(())
}

pub fn finding_key(_c: &Case, _v: &Violation) -> Option<String> {
    None
}
