//! C03 — No input content can crash ingestion and analysis.
//! Corpora (simulated multi-boot/multi-ECU DLT traces with every message kind, repository example
//! files, grammar-generated text lines) under stored-data faults (bit flips, truncation, splices,
//! field-targeted corruption located with the ground truth), pushed through the whole chain in an
//! isolated worker with panic capture, overflow checks and an accounting allocator.

use crate::fw::{hexbytes, Check, Ctx, Tier, Violation};
use crate::rng::Rng;
use crate::scripted::{gen_sched, Sched, ScriptedSource};
use crate::sh::{self, SchedCfg};
use crate::world::*;
use adlt::dlt::{DltChar4, DltExtendedHeader, DltMessage, DLT_MSG_PARSER_LOW_MARK};
use adlt::lifecycle::{get_sorted_lifecycles_as_vec, parse_lifecycles_buffered_from_stream, Lifecycle, LifecycleId};
use adlt::utils::LowMarkBufReader;
use adlt_verif_seam::std as sstd;
use serde::{Deserialize, Serialize};
use std::sync::atomic::{AtomicUsize, Ordering};
use std::sync::Arc;

// ---------------------------------------------------------------------------------------------
// accounting allocator (installed as the global allocator of the checks binary)

pub struct AcctAlloc;
static LIMIT: AtomicUsize = AtomicUsize::new(usize::MAX);
static BIGGEST: AtomicUsize = AtomicUsize::new(0);
static WHITELIST: [AtomicUsize; 8] = [const { AtomicUsize::new(0) }; 8];
/// sum of the sizes of all requests >= 1 MiB during a run (constant reservations excluded)
static CUMUL: AtomicUsize = AtomicUsize::new(0);
static CUMUL_BASE: AtomicUsize = AtomicUsize::new(0);
/// the first requests >= 1 MiB of a run (for the report)
static CUMUL_LOG: [AtomicUsize; 12] = [const { AtomicUsize::new(0) }; 12];
static CUMUL_N: AtomicUsize = AtomicUsize::new(0);

#[inline]
fn note(size: usize) {
    if size >= (1 << 20) {
        let limit = LIMIT.load(Ordering::Relaxed);
        if limit == usize::MAX {
            return;
        }
        for w in WHITELIST.iter() {
            if w.load(Ordering::Relaxed) == size {
                return;
            }
        }
        CUMUL.fetch_add(size, Ordering::Relaxed);
        let k = CUMUL_N.fetch_add(1, Ordering::Relaxed);
        if k < CUMUL_LOG.len() {
            CUMUL_LOG[k].store(size, Ordering::Relaxed);
        }
        if size > limit {
            BIGGEST.fetch_max(size, Ordering::Relaxed);
        }
    }
}
unsafe impl std::alloc::GlobalAlloc for AcctAlloc {
    unsafe fn alloc(&self, l: std::alloc::Layout) -> *mut u8 {
        note(l.size());
        std::alloc::System.alloc(l)
    }
    unsafe fn dealloc(&self, p: *mut u8, l: std::alloc::Layout) {
        std::alloc::System.dealloc(p, l)
    }
    unsafe fn alloc_zeroed(&self, l: std::alloc::Layout) -> *mut u8 {
        note(l.size());
        std::alloc::System.alloc_zeroed(l)
    }
    unsafe fn realloc(&self, p: *mut u8, l: std::alloc::Layout, n: usize) -> *mut u8 {
        note(n);
        std::alloc::System.realloc(p, l, n)
    }
}

const ALLOC_FLOOR: usize = 16 << 20;

// ---------------------------------------------------------------------------------------------

#[derive(Clone, Debug, Serialize, Deserialize)]
pub struct Case {
    /// file extension deciding the iterator: dlt, asc, txt, log
    pub ext: String,
    #[serde(with = "hexbytes")]
    pub bytes: Vec<u8>,
    pub sched: Sched,
    pub faults: Vec<String>,
    pub corpus: String,
    /// index given to the first message (a file opened after others continues their numbering)
    #[serde(default)]
    pub index_base: u32,
}

fn put32(p: &mut Vec<u8>, v: u32, be: bool) {
    if be { p.extend_from_slice(&v.to_be_bytes()) } else { p.extend_from_slice(&v.to_le_bytes()) }
}
fn put16(p: &mut Vec<u8>, v: u16, be: bool) {
    if be { p.extend_from_slice(&v.to_be_bytes()) } else { p.extend_from_slice(&v.to_le_bytes()) }
}

/// structured control response bodies (after service id): status + parameters
fn gen_ctrl_response(rng: &mut Rng, be: bool) -> (u32, Vec<u8>) {
    let sid = *rng.pick(&[3u32, 3, 3, 19, 19, 0xF01, 0xF02, 0xF03, 0xF04, 1, 2, 4, 20, 0xF05, 0xFFFF_FFFF, 0]);
    let mut p = vec![];
    match sid {
        3 => {
            let status = *rng.pick(&[3u8, 4, 5, 6, 7, 7, 7, 8, 0, 2]);
            p.push(status);
            let napp = rng.urange(0, 3) as u16;
            put16(&mut p, if rng.chance(1, 8) { rng.u32() as u16 } else { napp }, be);
            for _ in 0..napp {
                p.extend_from_slice(b"APP1");
                let nctx = rng.urange(0, 3) as u16;
                put16(&mut p, if rng.chance(1, 8) { rng.u32() as u16 } else { nctx }, be);
                for _ in 0..nctx {
                    p.extend_from_slice(b"CTX1");
                    if matches!(status, 4 | 6 | 7) {
                        p.push(rng.u8());
                    }
                    if matches!(status, 5 | 6 | 7) {
                        p.push(rng.u8());
                    }
                    if status == 7 {
                        let d = rng.urange(0, 12);
                        put16(&mut p, d as u16, be);
                        p.extend(std::iter::repeat(b'd').take(d));
                    }
                }
                if status == 7 {
                    let d = rng.urange(0, 12);
                    put16(&mut p, d as u16, be);
                    p.extend(std::iter::repeat(b'a').take(d));
                }
            }
            if rng.chance(1, 3) {
                p.extend_from_slice(b"remo");
            }
        }
        19 => {
            p.push(*rng.pick(&[0u8, 1, 2, 8, 9]));
            let v = b"SW version 1.2.3";
            put32(&mut p, if rng.chance(1, 5) { rng.u32() } else { v.len() as u32 }, be);
            p.extend_from_slice(v);
        }
        0xF01 => {
            p.push(0);
            p.extend_from_slice(b"APP1CTX1remo");
        }
        0xF02 => {
            p.push(0);
            p.push(rng.u8() % 4);
            p.extend_from_slice(b"remo");
        }
        0xF03 => {
            p.push(0);
            put32(&mut p, rng.u32(), be);
            p.push(rng.u8() % 2);
        }
        _ => {
            p.push(rng.u8());
            p.extend(rng.bytes_upto(12));
        }
    }
    // truncate the body at an arbitrary point sometimes (every length 0..n is reachable)
    if rng.chance(1, 2) && !p.is_empty() {
        let l = rng.usize(p.len() + 1);
        p.truncate(l);
    }
    (sid, p)
}

fn flst(rng: &mut Rng, be: bool) -> (u8, Vec<u8>) {
    let mut p = vec![];
    let s = |p: &mut Vec<u8>, t: &str| {
        put32(p, 0x200, be);
        put16(p, (t.len() + 1) as u16, be);
        p.extend_from_slice(t.as_bytes());
        p.push(0);
    };
    let u64a = |p: &mut Vec<u8>, v: u64| {
        put32(p, 0x44, be);
        if be { p.extend_from_slice(&v.to_be_bytes()) } else { p.extend_from_slice(&v.to_le_bytes()) }
    };
    let u32a = |p: &mut Vec<u8>, v: u32| {
        put32(p, 0x43, be);
        put32(p, v, be);
    };
    let big = [0u64, 1, 1 << 31, 1 << 32, u32::MAX as u64, 1 << 62, 1 << 63, u64::MAX, 3_000_000, 100];
    match rng.below(3) {
        0 => {
            s(&mut p, "FLST");
            u32a(&mut p, rng.u32() % 10);
            s(&mut p, "file.bin");
            u64a(&mut p, *rng.pick(&big));
            s(&mut p, "date");
            u64a(&mut p, *rng.pick(&big));
            u64a(&mut p, *rng.pick(&big));
            s(&mut p, "FLST");
            (8, p)
        }
        1 => {
            s(&mut p, "FLDA");
            u32a(&mut p, rng.u32() % 10);
            u32a(&mut p, *rng.pick(&[0u32, 1, 2, u32::MAX]));
            put32(&mut p, 0x400, be);
            let l = rng.usize(40);
            put16(&mut p, l as u16, be);
            p.extend(rng.bytes(l));
            s(&mut p, "FLDA");
            (5, p)
        }
        _ => {
            s(&mut p, "FLFI");
            u32a(&mut p, rng.u32() % 10);
            s(&mut p, "FLFI");
            (3, p)
        }
    }
}

/// a simulated trace with every message kind, serialised; returns bytes and message spans
fn gen_dlt_corpus(rng: &mut Rng) -> (Vec<u8>, Vec<(usize, usize)>) {
    let mut k = rng.sub("knobs");
    let max_msgs = k.urange(5, 120);
    let mut knobs = WorldKnobs::gen(&mut k, max_msgs);
    knobs.n_ecus = std::cmp::max(knobs.n_ecus, 1);
    let (trace, _) = gen_world(&mut rng.sub("world"), &knobs);
    let mut sp = rng.sub("special");
    let mut bytes = vec![];
    let mut spans = vec![];
    for (i, t) in trace.iter().enumerate() {
        let mut d: DltMessage = if sp.chance(1, 3) {
            crate::c19::build(&crate::c19::PMsg { t: t.clone(), special: 1 + sp.below(7) as u8, variant: sp.u32() }, i as u32)
        } else {
            t.to_dlt(i as u32)
        };
        let be = sp.chance(1, 5);
        if be {
            d.standard_header.htyp |= 2;
        }
        match sp.below(12) {
            0 | 1 => {
                // control response with structured body; sometimes with the verbose bit set
                let (sid, body) = gen_ctrl_response(&mut sp, be);
                let mut p = vec![];
                put32(&mut p, sid, be);
                p.extend(body);
                d.payload = p;
                let verb = if sp.chance(1, 4) { 1 } else { 0 };
                d.extended_header = Some(DltExtendedHeader { verb_mstp_mtin: verb | (3 << 1) | (2 << 4), noar: sp.u8() % 3, apid: DltChar4::from_buf(b"DA1\0"), ctid: DltChar4::from_buf(b"DC1\0") });
            }
            2 => {
                let (noar, p) = flst(&mut sp, be);
                d.payload = p;
                d.extended_header = Some(DltExtendedHeader { verb_mstp_mtin: 0x01 | (4 << 4), noar, apid: DltChar4::from_buf(b"SYS\0"), ctid: DltChar4::from_buf(b"FILE") });
            }
            3 => {
                // verbose message with arbitrary type-info words
                let mut p = vec![];
                for _ in 0..sp.urange(1, 5) {
                    put32(&mut p, match sp.below(4) { 0 => sp.u32(), 1 => 1 << sp.below(18), _ => *sp.pick(&[0x10u32, 0x23, 0x45, 0x83, 0x84, 0x200, 0x8200, 0x400, 0x82, 0x45 | 0x800, 0x43 | 0x1000]) }, be);
                    let l = sp.usize(12);
                    if sp.bool() {
                        put16(&mut p, *sp.pick(&[0u16, l as u16, 0xffff, 1, (l + 1) as u16]), be);
                    }
                    p.extend(sp.bytes(l));
                }
                d.payload = p;
                d.extended_header = Some(DltExtendedHeader { verb_mstp_mtin: 0x01 | (sp.u8() & 0xfe), noar: sp.u8(), apid: DltChar4::from_buf(b"APP1"), ctid: DltChar4::from_buf(b"CTX1") });
            }
            _ => {}
        }
        d.extended_header.is_some().then(|| d.standard_header.htyp |= 1);
        if d.extended_header.is_none() {
            d.standard_header.htyp &= !1;
        }
        let o = bytes.len();
        let _ = d.to_write(&mut bytes);
        spans.push((o, bytes.len() - o));
    }
    (bytes, spans)
}

fn gen_text_corpus(rng: &mut Rng, ext: &str) -> Vec<u8> {
    let mut out = String::new();
    let n = rng.urange(1, 60);
    let num = |rng: &mut Rng| -> String {
        match rng.below(8) {
            0 => "0".into(),
            1 => "-1".into(),
            2 => "99999999999999999999999".into(),
            3 => format!("{}", rng.u32()),
            4 => format!("{}.{}", rng.u32() % 100000, rng.u32() % 1000000),
            5 => "".into(),
            6 => "1e308".into(),
            _ => format!("{}", rng.below(100)),
        }
    };
    // timestamps of the shape the line grammars accept (int.frac), magnitudes around every width limit
    let ts = |rng: &mut Rng, frac6: bool| -> String {
        let int = match rng.below(10) {
            0 => "0".to_string(),
            1 => format!("{}", rng.below(100)),
            2 => format!("{}", rng.u32() % 1_000_000),
            3 => "429496".into(),
            4 => "4294967".into(),
            5 => format!("{}", 4_294_967_295u64 + rng.below(3)),
            6 => (*rng.pick(&["18446744073709", "9223372036854", "9223372036853", "9223372036855"])).into(),
            7 => "18446744073710".into(),
            8 => format!("{}", u64::MAX),
            _ => "99999999999999999999".into(),
        };
        let frac = if frac6 { format!("{:06}", rng.u32() % 1_000_000) } else {
            match rng.below(5) { 0 => format!("{:03}", rng.u32() % 1000), 1 => format!("{:06}", rng.u32() % 1_000_000), 2 => "9".into(), 3 => "99999999999999999999".into(), _ => format!("{}", rng.u32()) }
        };
        format!("{}{}.{}", if rng.chance(1, 8) { "-" } else { "" }, int, frac)
    };
    // \d in the line grammars is Unicode aware: swap one ASCII digit of a line for a non-ASCII one
    let uni_digit = |rng: &mut Rng, l: String| -> String {
        let pos: Vec<usize> = l.char_indices().filter(|(_, c)| c.is_ascii_digit()).map(|(i, _)| i).collect();
        if pos.is_empty() {
            return l;
        }
        let i = *rng.pick(&pos);
        let d = *rng.pick(&['\u{662}', '\u{ff11}', '\u{96a}', '\u{1d7d8}']);
        format!("{}{}{}", &l[..i], d, &l[i + 1..])
    };
    let short_tag = |rng: &mut Rng| -> &'static str { *rng.pick(&["", " ", "  ", "\u{a0}", "\t", "\u{e9}", "\u{e9}\u{e9}", "\u{fc}\u{fc}", "\u{20ac}", "ab\u{20ac}", "\u{65e5}\u{672c}", "NoAs", "a\u{e9}b", "\u{e9}_\u{fc}_x_y", "Caf\u{e9}Bar"]) };
    let long_name = |rng: &mut Rng| -> String {
        let l = match rng.below(6) { 0 => 65_480 + rng.usize(80), 1 => 65_536, 2 => 70_000, 3 => 131_072 + rng.usize(3), 4 => 32_768, _ => 255 + rng.usize(3) };
        "T".repeat(l)
    };
    match ext {
        "asc" => {
            out.push_str(match rng.below(4) { 0 => "date Wed Oct 19 10:15:25.000 am 2022\n", 1 => "date Mit Okt 19 25:61:61.999 2022\n", 2 => "date\n", _ => "" });
            out.push_str(match rng.below(3) { 0 => "base hex  timestamps absolute\n", 1 => "base dec timestamps relative\n", _ => "" });
            for _ in 0..n {
                let l = match if rng.chance(1, 150) { 15 } else { rng.below(15) } {
                    15 => {
                        // a frame whose announced and actual data length is close to the 16-bit limit
                        let n = 65_500 + rng.usize(36);
                        let data = vec!["AB"; n].join(" ");
                        if rng.bool() {
                            format!("   0.100000 1  2dc             Rx   d {} {}\n", n, data)
                        } else {
                            format!("0.200000 CANFD 1 Rx 2dc name 1 0 f {} {}\n", n, data)
                        }
                    }
                    13 => {
                        // data field with multi-byte characters at arbitrary byte offsets
                        let n = rng.below(9);
                        let chars = ['0', 'A', 'f', ' ', '\u{e9}', '\u{20ac}', '\u{10348}', '7'];
                        let data: String = (0..(3 * n + rng.below(4))).map(|_| *rng.pick(&chars)).collect();
                        format!("   {} {}  {:x}             Rx   d {} {}\n", ts(rng, true), rng.below(40), rng.u32() % 0x800, n, data)
                    }
                    14 => {
                        let n = rng.below(20);
                        let chars = ['0', 'a', ' ', '\u{fc}', '\u{20ac}', '1'];
                        let data: String = (0..(3 * n + rng.below(4))).map(|_| *rng.pick(&chars)).collect();
                        format!("{} CANFD {} Rx {:x} name\u{e9} 1 0 {:x} {} {}\n", ts(rng, true), rng.below(300), rng.u32() % 0x800, n % 16, n, data)
                    }
                    11 => format!("// BusMapping: CAN {} = {}\n", *rng.pick(&[0u32, 1, 31, 255, 256, 99999]), if rng.chance(1, 6) { long_name(rng) } else if rng.bool() { short_tag(rng).to_string() } else { "Body".to_string() }),
                    12 => format!("// BusMapping: CANFD{}= x\n//\n// {}\n", rng.below(3), String::from_utf8_lossy(&rng.bytes_upto(20))),
                    8 => format!("   {} {}  {:x}             Rx   d {} {}\n", ts(rng, true), rng.below(40), rng.u32() % 0x800, rng.below(9), (0..rng.below(9)).map(|_| format!("{:02X}", rng.u8())).collect::<Vec<_>>().join(" ")),
                    9 => format!("{} CANFD {} Rx {:x} name 1 0 {:x} {} {}\n", ts(rng, true), rng.below(300), rng.u32(), rng.below(16), rng.below(70), (0..rng.below(70)).map(|_| format!("{:02x}", rng.u8())).collect::<Vec<_>>().join(" ")),
                    10 => format!("{} CANFD {} Rx ErrorFrame Not Acknowledge error, dominant error flag fffe c7 31ca Rx 0 0 f 0 0 0 0 0 0 0 0 0 0 0 0 0 0\n", ts(rng, true), rng.below(300)),
                    0 => format!("   {} {}  {:x}             Rx   d {} {}\n", num(rng), rng.below(40), rng.u32() % 0x800, rng.below(9), (0..rng.below(9)).map(|_| format!("{:02X}", rng.u8())).collect::<Vec<_>>().join(" ")),
                    1 => format!("{} CANFD {} Rx {:x} name 1 0 {} {} {}\n", num(rng), num(rng), rng.u32(), rng.below(70), rng.below(70), (0..rng.below(70)).map(|_| format!("{:02x}", rng.u8())).collect::<Vec<_>>().join(" ")),
                    2 => format!("{} {} ErrorFrame\n", num(rng), num(rng)),
                    3 => format!("{} {} {}x Tx r\n", num(rng), num(rng), num(rng)),
                    4 => "Begin Triggerblock\n".into(),
                    5 => format!("{} CANFD {} ErrorFrame Not Acknowledge error, dominant error flag fffe c7 31ca Rx 0 0 f 0 0 0 0 0 0 0 0 0 0 0 0 0 0\n", num(rng), num(rng)),
                    6 => String::from_utf8_lossy(&rng.bytes_upto(40)).to_string() + "\n",
                    _ => format!("{} {} Statistic: D {} R {} XD 0 XR 0 E 0 O 0 B 0.00%\n", num(rng), num(rng), num(rng), num(rng)),
                };
                let l = if rng.chance(1, 10) { uni_digit(rng, l) } else { l };
                out.push_str(&l);
            }
        }
        "txt" => {
            for _ in 0..n {
                let l = match rng.below(14) {
                    12 => {
                        // \s in the line grammars is Unicode aware as well: multi-byte white space after the time stamp
                        let ws = *rng.pick(&["\u{a0}", "\u{2003}", "\u{3000}", "\u{85}", " \u{a0}"]);
                        if rng.bool() {
                            format!("{:02}-{:02} {:02}:{:02}:{:02}.{:03}{}{}  {} I Tag: unicode white space\n", 1 + rng.below(12), 1 + rng.below(28), rng.below(24), rng.below(60), rng.below(60), rng.below(1000), ws, rng.below(10000), rng.below(10000))
                        } else {
                            format!("{}{}.{:03}{}{} {} W Tag: unicode white space\n", ws, rng.below(100000), rng.below(1000), ws, rng.below(10000), rng.below(10000))
                        }
                    }
                    13 => format!("{:02}-{:02} {:02}:{:02}:{:02}.{:03} {}{}{}{}I{}Tag{}: {}\n", 1 + rng.below(12), 1 + rng.below(28), rng.below(24), rng.below(60), rng.below(60), rng.below(1000), rng.below(10000), *rng.pick(&[" ", "\u{a0}", "\u{2003}"]), rng.below(10000), *rng.pick(&[" ", "\u{a0}"]), *rng.pick(&[" ", "\u{a0}"]), *rng.pick(&["", " ", "\u{a0}"]), "text"),
                    11 => {
                        // threadtime stamp of exactly 18 bytes in which one digit is a multi-byte (Unicode) digit
                        let (d, k) = *rng.pick(&[('\u{662}', 2usize), ('\u{6f3}', 2), ('\u{ff11}', 3), ('\u{96a}', 3)]);
                        let frac = "1".repeat(3 - (k - 1));
                        let base = format!("{:02}-{:02} {:02}:{:02}:{:02}.{}", 1 + rng.below(12), 1 + rng.below(28), rng.below(24), rng.below(60), rng.below(60), frac);
                        let pos: Vec<usize> = base.char_indices().filter(|(_, c)| c.is_ascii_digit()).map(|(i, _)| i).collect();
                        let i = *rng.pick(&pos);
                        format!("{}{}{}  100  200 I MyTag   : unicode digit\n", &base[..i], d, &base[i + 1..])
                    }
                    9 => format!("  {} {} {} I {}: monotonic line with a long tag\n", ts(rng, false).trim_start_matches('-'), rng.below(100000), rng.below(100000), long_name(rng)),
                    10 => format!("{:02}-{:02} {:02}:{:02}:{:02}.{:03} {} {} W {}: threadtime line with a long tag\n", 1 + rng.below(12), 1 + rng.below(28), rng.below(24), rng.below(60), rng.below(60), rng.below(1000), rng.below(100000), rng.below(100000), long_name(rng)),
                    7 => format!("  {} {} {} {} {}: monotonic line\n", ts(rng, false).trim_start_matches('-'), rng.below(100000), rng.below(100000), rng.pick(&["I", "D", "E", "W", "V", "F", "X"]), if rng.chance(1, 3) { short_tag(rng) } else { *rng.pick(&["Tag", "a b", "ActivityManager"]) }),
                    8 => format!("{:02}-{:02} {:02}:{:02}:{:02}.{} {} {} I {}: threadtime line\n", rng.below(14), rng.below(33), rng.below(25), rng.below(61), rng.below(61), match rng.below(3) { 0 => "999".to_string(), 1 => "99999999999999999999".to_string(), _ => format!("{}", rng.u32()) }, rng.below(100000), rng.below(100000), if rng.chance(1, 3) { short_tag(rng) } else { "Tag" }),
                    0 => format!("{}-{} {}:{}:{}.{} {} {} {} {}: {}\n", num(rng), num(rng), num(rng), num(rng), num(rng), num(rng), num(rng), num(rng), rng.pick(&["I", "D", "E", "W", "V", "F", "X", ""]), rng.pick(&["Tag", "", "a b", "ActivityManager"]), "text with : colons"),
                    1 => "01-01 00:00:00.000  1234  5678 I Tag: text\n".into(),
                    2 => "--------- beginning of main\n".into(),
                    3 => format!("12-31 23:59:59.999 {} {} I T: x\n", num(rng), num(rng)),
                    4 => format!("02-30 24:60:60.1000 1 1 {} : \n", rng.pick(&["I", "Z"])),
                    5 => String::from_utf8_lossy(&rng.bytes_upto(60)).to_string() + "\n",
                    _ => format!("{} {} {}\n", num(rng), num(rng), num(rng)),
                };
                let l = if rng.chance(1, 8) { uni_digit(rng, l) } else { l };
                out.push_str(&l);
            }
        }
        _ => {
            for _ in 0..n {
                let l = match rng.below(10) {
                    6 => format!("[2{:03}-{:02}-{:02} {:02}:{:02}:{:02}.{:03}] [{}] [{}] message {}\n", rng.below(1000), rng.below(14), rng.below(33), rng.below(25), rng.below(61), rng.below(62), rng.below(1000), rng.pick(&["INF", "WRN", "ERR", "VER", "FAT", "SEV", "DBG", "???", "\u{fc}\u{fc}"]), if rng.chance(1, 3) { short_tag(rng) } else { *rng.pick(&["tag", "", "a b", "Component.Sub", "]["]) }, rng.u32()),
                    7 => format!("[2024-02-29 23:59:59.999] [INF] [{}] long tag\n", long_name(rng)),
                    8 => format!("[2000-01-01 00:00:00.000] [ERR] [t{}] first of a series\n[1999-12-31 23:59:59.999] [ERR] [t] not matching the year pattern\n[2999-12-31 23:59:59.999] [ERR] [t] far future\n", rng.below(5)),
                    9 => format!("[2024-01-01 00:00:00.000] [INF] [tag] {}\n", "m".repeat(*rng.pick(&[0usize, 1, 65_500, 65_536, 70_000]))),
                    0 => format!("2023-{}-{}T{}:{}:{}.{}Z some generic log line {}\n", num(rng), num(rng), num(rng), num(rng), num(rng), num(rng), num(rng)),
                    1 => format!("[{}] {} message\n", num(rng), rng.pick(&["INFO", "ERROR", "", "warn"])),
                    2 => "\n".into(),
                    3 => String::from_utf8_lossy(&rng.bytes_upto(80)).to_string() + "\n",
                    4 => format!("{} {}\n", num(rng), "x".repeat(rng.usize(300))),
                    _ => format!("Jan {} {}:{}:{} host proc[{}]: text\n", num(rng), num(rng), num(rng), num(rng), num(rng)),
                };
                let l = if rng.chance(1, 8) { uni_digit(rng, l) } else { l };
                out.push_str(&l);
            }
        }
    }
    out.into_bytes()
}

fn repo_file_corpus(rng: &mut Rng) -> (String, Vec<u8>, String) {
    let files: [(&str, &str); 12] = [
        ("dlt", "lc_ex002.dlt"), ("dlt", "lc_ex003.dlt"), ("dlt", "lc_ex004.dlt"), ("dlt", "lc_ex005.dlt"), ("dlt", "lc_ex006.dlt"), ("dlt", "ex_1970_1_1.dlt"),
        ("asc", "can_example1.asc"), ("asc", "can_example2a.asc"), ("asc", "can_example3.asc"),
        ("txt", "logcat_example1.txt"), ("txt", "logcat_example3.txt"), ("log", "genlog_example1.log"),
    ];
    let (ext, name) = files[rng.usize(files.len())];
    let data = std::fs::read(format!("/repo/tests/{}", name)).unwrap_or_default();
    let start = if data.len() > 40_000 && rng.bool() { rng.usize(data.len() - 40_000) } else { 0 };
    let len = std::cmp::min(data.len() - start, rng.urange(1_000, 40_000));
    (ext.to_string(), data[start..start + len].to_vec(), name.to_string())
}

/// field-targeted corruption of one message located by its span
fn corrupt_field(rng: &mut Rng, b: &mut [u8], span: (usize, usize), faults: &mut Vec<String>) {
    let (o, l) = span;
    if l < 20 || o + l > b.len() {
        return;
    }
    let htyp = b[o + 16];
    let mut hdr = 20;
    if htyp & 4 != 0 { hdr += 4; }
    if htyp & 8 != 0 { hdr += 4; }
    let ts_off = if htyp & 16 != 0 { let t = o + hdr; hdr += 4; Some(t) } else { None };
    let ext_off = if htyp & 1 != 0 { let e = o + hdr; hdr += 10; Some(e) } else { None };
    let pay = o + hdr;
    let be = htyp & 2 != 0;
    match rng.below(12) {
        0 => {
            let r = rng.u32() as u16;
            let v: u16 = *rng.pick(&[0u16, 3, 4, 13, 0xffff, (l as u16).wrapping_sub(17), (l as u16).wrapping_sub(15), r]);
            b[o + 18..o + 20].copy_from_slice(&v.to_be_bytes());
            faults.push(format!("len={}", v));
        }
        1 => {
            b[o + 16] = rng.u8();
            faults.push("htyp".into());
        }
        2 => {
            if let Some(e) = ext_off {
                if e + 2 <= o + l {
                    b[e + 1] = *rng.pick(&[0u8, 1, 2, 3, 5, 8, 13, 255]);
                    faults.push("noar".into());
                }
            }
        }
        3 => {
            if let Some(e) = ext_off {
                if e < o + l {
                    b[e] = rng.u8();
                    faults.push("verb_mstp_mtin".into());
                }
            }
        }
        4 => {
            if let Some(t) = ts_off {
                if t + 4 <= o + l {
                    let v: u32 = *rng.pick(&[0u32, 1, u32::MAX, u32::MAX - 1, 0x8000_0000]);
                    b[t..t + 4].copy_from_slice(&v.to_be_bytes());
                    faults.push(format!("timestamp={}", v));
                }
            }
        }
        5 => {
            let v: u32 = *rng.pick(&[0u32, 1, 59, 60, 61, u32::MAX]);
            b[o + 4..o + 8].copy_from_slice(&v.to_le_bytes());
            faults.push(format!("secs={}", v));
        }
        6 => {
            let v: u32 = *rng.pick(&[999_999u32, 1_000_000, u32::MAX]);
            b[o + 8..o + 12].copy_from_slice(&v.to_le_bytes());
            faults.push(format!("micros={}", v));
        }
        7 | 8 => {
            // a type-info word / service id / message id at the payload start or further in
            if pay + 4 <= o + l {
                let at = pay + 4 * rng.usize((o + l - pay) / 4);
                if at + 4 <= o + l {
                    let v: u32 = match rng.below(4) { 0 => rng.u32(), 1 => 1 << rng.below(20), 2 => *rng.pick(&[3u32, 19, 0xF01, 0xF02, 0xF03]), _ => *rng.pick(&[0x200u32, 0x400, 0x8200, 0x43, 0x44, 0x23, 0x10, 0x83]) };
                    let bytes = if be { v.to_be_bytes() } else { v.to_le_bytes() };
                    b[at..at + 4].copy_from_slice(&bytes);
                    faults.push(format!("word@{}={:#x}", at - pay, v));
                }
            }
        }
        9 => {
            // a 16 bit length prefix somewhere in the payload
            if pay + 6 <= o + l {
                let at = pay + 4 + rng.usize(o + l - pay - 5);
                let v: u16 = *rng.pick(&[0u16, 1, 0xffff, 0x7fff, (o + l - at) as u16, (o + l - at - 1) as u16]);
                let bytes = if be { v.to_be_bytes() } else { v.to_le_bytes() };
                b[at..at + 2].copy_from_slice(&bytes);
                faults.push(format!("len16@{}={}", at - pay, v));
            }
        }
        10 => {
            // return code / status byte of a control response
            if pay + 5 <= o + l {
                b[pay + 4] = *rng.pick(&[0u8, 3, 4, 5, 6, 7, 8, 255]);
                faults.push("status".into());
            }
        }
        _ => {
            if let Some(e) = ext_off {
                if e < o + l {
                    b[e] |= 1; // verbose bit on whatever it is
                    faults.push("verbose-bit".into());
                }
            }
        }
    }
}

fn blind_faults(rng: &mut Rng, b: &mut Vec<u8>, faults: &mut Vec<String>) {
    if b.is_empty() {
        return;
    }
    match rng.below(6) {
        0 => {
            for _ in 0..rng.urange(1, 8) {
                let p = rng.usize(b.len());
                b[p] ^= 1 << rng.below(8);
            }
            faults.push("bitflips".into());
        }
        1 => {
            let p = rng.usize(b.len());
            b[p] = *rng.pick(&[0u8, 0xff]);
            faults.push("byte-set".into());
        }
        2 => {
            let p = rng.usize(b.len() + 1);
            b.truncate(p);
            faults.push(format!("truncate@{}", p));
        }
        3 => {
            let a = rng.usize(b.len());
            let l = rng.usize(std::cmp::min(2000, b.len() - a) + 1);
            let at = rng.usize(b.len());
            let seg = b[a..a + l].to_vec();
            let tail = b.split_off(at);
            b.extend(seg);
            b.extend(tail);
            faults.push("duplicate-region".into());
        }
        4 => {
            let a = rng.usize(b.len());
            let l = rng.usize(std::cmp::min(500, b.len() - a) + 1);
            b.drain(a..a + l);
            faults.push("delete-region".into());
        }
        _ => {
            // splice: second half from another offset
            let a = rng.usize(b.len());
            let c = rng.usize(b.len());
            let tail = b[c..].to_vec();
            b.truncate(a);
            b.extend(tail);
            faults.push("splice".into());
        }
    }
}

fn chain(c: &Case, ctx: &mut Ctx) -> Result<(), Violation> {
    let bytes = Arc::new(c.bytes.clone());
    let ext = c.ext.clone();
    let sched = c.sched.clone();
    let index_base = c.index_base;
    if index_base != 0 {
        ctx.probe("numbering_continues_near_u32_max");
    }
    let n_msgs = sh::slot(0usize);
    let n_msgs2 = n_msgs.clone();
    crate::lc::align_lc_ids();
    let mut sc = SchedCfg::simple();
    sc.max_steps = 50_000_000;
    sh::run(&sc, ctx, move || {
        let src = ScriptedSource::new(bytes.clone(), sched.clone(), Arc::new(vec![]));
        let rd = LowMarkBufReader::new(src, DLT_MSG_PARSER_LOW_MARK + 8192, DLT_MSG_PARSER_LOW_MARK);
        let ns = adlt::utils::get_new_namespace();
        let it = adlt::utils::get_dlt_message_iterator(&ext, index_base, rd, ns, Some(1_600_000_000_000_000), Some(1_600_000_000_000_000), None);
        let mut msgs: Vec<DltMessage> = vec![];
        for m in it {
            msgs.push(m);
            if msgs.len() >= 20_000 {
                break;
            }
        }
        *n_msgs2.lock().unwrap() = msgs.len();
        // text, re-serialisation, statistics
        let mut sink: Vec<u8> = Vec::with_capacity(1024);
        let mut eac = adlt::utils::eac_stats::EacStats::new();
        for m in msgs.iter() {
            sink.clear();
            let _ = m.header_as_text_to_write(&mut sink);
            let _ = m.payload_as_text();
            let _ = m.to_write(&mut sink);
            eac.add_msg(m);
            for a in m {
                let _ = a.payload_raw.len();
            }
        }
        // lifecycles + listing
        let (lcs_r, lcs_w) = evmap::Options::default().with_hasher(crate::lc::NoHash::default()).construct::<LifecycleId, Lifecycle>();
        let (tx, rx) = sstd::sync::mpsc::channel();
        for m in msgs.iter() {
            tx.send(m.clone()).unwrap();
        }
        drop(tx);
        let staged = std::cell::RefCell::new(Vec::<DltMessage>::new());
        let lcs_w = parse_lifecycles_buffered_from_stream(lcs_w, rx, &|m| { staged.borrow_mut().push(m); Ok(()) });
        let staged = staged.into_inner();
        if let Some(rd) = lcs_r.read() {
            let _ = get_sorted_lifecycles_as_vec(&rd).len();
        }
        // time sort
        let (tx, rx) = sstd::sync::mpsc::channel();
        for m in staged.iter() {
            tx.send(m.clone()).unwrap();
        }
        drop(tx);
        let cnt = std::cell::Cell::new(0usize);
        let _ = adlt::utils::buffer_sort_messages(rx, &|_m| { cnt.set(cnt.get() + 1); Ok(()) }, &lcs_r, 3, 2_000_000);
        // filters
        let filters: Vec<adlt::filter::Filter> = [
            r#"{"type":0,"ecu":"ECU0"}"#, r#"{"type":0,"apid":"^A","ctid":"CTX1"}"#, r#"{"type":1,"payload":"msg","ignoreCasePayload":true}"#,
            r#"{"type":0,"payloadRegex":"^\\[.*\\]|[0-9]+"}"#, r#"{"type":0,"logLevelMin":2,"logLevelMax":5}"#, r#"{"type":3,"mstp":3}"#, r#"{"type":0,"lifecycles":[1,2,3],"not":true}"#,
        ].iter().filter_map(|j| adlt::filter::Filter::from_json(j).ok()).collect();
        for m in staged.iter() {
            for f in filters.iter() {
                let _ = f.matches(m);
            }
        }
        // plugins
        let mut cfgs: Vec<String> = (0..5u8).map(crate::c19::plugin_cfg).collect();
        cfgs.push(r#"{"name":"FileTransfer","enabled":true}"#.to_string());
        let mut plugins = crate::pipes::build_plugins(&cfgs);
        plugins.push(Box::new(adlt::plugins::anonymize::AnonymizePlugin::new("anon")));
        for m in staged.iter() {
            for p in plugins.iter_mut() {
                let mut mm = m.clone();
                let _ = p.process_msg(&mut mm);
                let _ = mm.payload_as_text();
            }
        }
        drop(lcs_w);
    })?;
    let n = *n_msgs.lock().unwrap();
    ctx.probe_n("messages_through_chain", n as u64);
    ctx.event_u64(n as u64);
    Ok(())
}

pub struct C03;
impl Check for C03 {
    type Case = Case;
    const ID: &'static str = "C03";
    fn runs(t: Tier) -> u64 {
        t.pick(40_000, 2_000_000)
    }
    fn worker_init() {
        // learn the constant-size reservations of the implementation on a benign input
        LIMIT.store(ALLOC_FLOOR, Ordering::SeqCst);
        BIGGEST.store(0, Ordering::SeqCst);
        let mut rng = Rng::new(42);
        let (bytes, _) = gen_dlt_corpus(&mut rng);
        let c = Case { ext: "dlt".into(), bytes, sched: Sched::All, faults: vec![], corpus: "benign".into(), index_base: 0 };
        let mut ctx = Ctx::default();
        for slot in 0..WHITELIST.len() {
            BIGGEST.store(0, Ordering::SeqCst);
            let _ = chain(&c, &mut ctx);
            let b = BIGGEST.load(Ordering::SeqCst);
            if b == 0 {
                break;
            }
            WHITELIST[slot].store(b, Ordering::SeqCst);
        }
        // what a benign run requests in blocks >= 1 MiB apart from the constant reservations
        CUMUL.store(0, Ordering::SeqCst);
        let _ = chain(&c, &mut ctx);
        CUMUL_BASE.store(CUMUL.swap(0, Ordering::SeqCst), Ordering::SeqCst);
        BIGGEST.store(0, Ordering::SeqCst);
        LIMIT.store(usize::MAX, Ordering::SeqCst);
    }
    fn generate(rng: &mut Rng, _tier: Tier, _idx: u64) -> Case {
        let mut f = rng.sub("faults");
        let mut faults = vec![];
        let (ext, mut bytes, corpus) = match rng.weighted(&[70, 20, 10]) {
            0 => {
                let (mut b, spans) = gen_dlt_corpus(&mut rng.sub("dlt"));
                // field-targeted corruption
                let nf = f.weighted(&[15, 40, 25, 20]);
                for _ in 0..nf {
                    if !spans.is_empty() {
                        let s = spans[f.usize(spans.len())];
                        corrupt_field(&mut f, &mut b, s, &mut faults);
                    }
                }
                // serial framing variant: replace storage headers by DLS markers
                if f.chance(1, 10) {
                    let mut out = vec![];
                    for (o, l) in spans.iter() {
                        if o + l <= b.len() && *l >= 16 {
                            out.extend_from_slice(b"DLS\x01");
                            out.extend_from_slice(&b[o + 16..o + l]);
                        }
                    }
                    b = out;
                    faults.push("serial-framing".into());
                }
                ("dlt".to_string(), b, "simulated-trace".to_string())
            }
            1 => {
                let ext = *rng.pick(&["asc", "txt", "log"]);
                (ext.to_string(), gen_text_corpus(&mut rng.sub("text"), ext), format!("grammar-{}", ext))
            }
            _ => repo_file_corpus(&mut rng.sub("repo")),
        };
        let nb = f.weighted(&[50, 30, 20]);
        for _ in 0..nb {
            blind_faults(&mut f, &mut bytes, &mut faults);
        }
        if bytes.len() > 1 << 20 {
            bytes.truncate(1 << 20);
        }
        let index_base = { let mut ib = rng.sub("index_base"); if ib.chance(1, 12) { u32::MAX - ib.below(4) as u32 } else { 0 } };
        Case { ext, bytes, sched: gen_sched(&mut rng.sub("sched")), faults, corpus, index_base }
    }
    fn run(c: &Case, ctx: &mut Ctx) -> Result<(), Violation> {
        ctx.sig.str(&c.ext);
        ctx.sig.u64(c.bytes.len() as u64);
        ctx.sig.u64(crate::rng::fnv1a(&c.bytes));
        for f in &c.faults {
            let k: &'static str = if f.starts_with("len=") { "corrupt_len" }
                else if f == "htyp" { "corrupt_htyp" }
                else if f == "noar" { "corrupt_noar" }
                else if f == "verb_mstp_mtin" || f == "verbose-bit" { "corrupt_message_type" }
                else if f.starts_with("timestamp=") { "corrupt_timestamp" }
                else if f.starts_with("secs=") || f.starts_with("micros=") { "corrupt_reception_time" }
                else if f.starts_with("word@") { "corrupt_type_info_or_service_id" }
                else if f.starts_with("len16@") { "corrupt_length_prefix" }
                else if f == "status" { "corrupt_status" }
                else if f == "bitflips" { "bit_flips" }
                else if f == "byte-set" { "byte_set" }
                else if f.starts_with("truncate@") { "truncation" }
                else if f == "splice" { "splice" }
                else if f == "serial-framing" { "serial_framing" }
                else { "region_copy_or_delete" };
            ctx.cfg(k);
            ctx.fired(k);
        }
        match c.ext.as_str() {
            "dlt" => ctx.probe("corpus_dlt"),
            "asc" => ctx.probe("corpus_asc"),
            "txt" => ctx.probe("corpus_logcat"),
            _ => ctx.probe("corpus_genlog"),
        }
        ctx.sim_time(c.bytes.len() as u128);
        LIMIT.store(std::cmp::max(ALLOC_FLOOR, 64 * c.bytes.len() + ALLOC_FLOOR), Ordering::SeqCst);
        BIGGEST.store(0, Ordering::SeqCst);
        CUMUL.store(0, Ordering::SeqCst);
        CUMUL_N.store(0, Ordering::SeqCst);
        let r = chain(c, ctx);
        let big = BIGGEST.swap(0, Ordering::SeqCst);
        let cumul = CUMUL.swap(0, Ordering::SeqCst);
        LIMIT.store(usize::MAX, Ordering::SeqCst);
        r?;
        let allowance = CUMUL_BASE.load(Ordering::SeqCst) + 64 * c.bytes.len() + (64 << 20);
        if big == 0 && cumul > allowance {
            return Err(Violation::new("alloc-cumulative-unrelated-to-input", format!("requests of >= 1 MiB add up to {} MiB for an input of {} bytes (a benign input of this kind: {} MiB; first requests in KiB: {:?}; corpus {}, faults {:?})", cumul >> 20, c.bytes.len(), CUMUL_BASE.load(Ordering::SeqCst) >> 20, CUMUL_LOG.iter().take(std::cmp::min(CUMUL_N.load(Ordering::SeqCst), CUMUL_LOG.len())).map(|x| x.load(Ordering::SeqCst) >> 10).collect::<Vec<_>>(), c.corpus, c.faults)));
        }
        if big > 0 {
            return Err(Violation::new("alloc-unrelated-to-input", format!("a single allocation of {} bytes was requested for an input of {} bytes (corpus {}, faults {:?})", big, c.bytes.len(), c.corpus, c.faults)));
        }
        ctx.nontrivial = !c.faults.is_empty();
        Ok(())
    }
    fn shrink(c: &Case) -> Vec<Case> {
        let mut out = vec![];
        let n = c.bytes.len();
        if n > 1 {
            // byte-level delta debugging: drop halves, quarters ... (message framing is lost, the class must persist)
            let mut chunk = n / 2;
            while chunk >= 16 {
                let mut i = 0;
                while i < n {
                    let mut b = c.bytes[..i].to_vec();
                    if i + chunk < n {
                        b.extend_from_slice(&c.bytes[i + chunk..]);
                    }
                    out.push(Case { bytes: b, ..c.clone() });
                    i += chunk;
                    if out.len() > 300 {
                        break;
                    }
                }
                chunk /= 2;
                if out.len() > 300 {
                    break;
                }
            }
        }
        if !matches!(c.sched, Sched::All) {
            out.push(Case { sched: Sched::All, ..c.clone() });
        }
        out
    }
    fn finding_key(_c: &Case, v: &Violation) -> Option<String> {
        crate::lc::lc_finding_key(v)
    }
    fn rule() -> &'static str {
        "one run = one input file image: 70 % simulated multi-ECU/multi-boot DLT traces containing every message kind (verbose/non-verbose logs, control requests/responses of all known services with structured GET_LOG_INFO/SW-version/timezone/... bodies truncated at every length, file-transfer announcements with sizes {0,1,2^31,2^32,2^62,2^63,2^64-1}, plugin-shaped network traces, arbitrary type-info words) with 0-3 field-targeted corruptions located by ground truth (len, htyp, noar, message type, timestamp {0,1,MAX}, reception seconds {0..61,MAX}, micros >= 10^6, type-info/service-id words, 16-bit length prefixes, status byte, verbose bit) and optionally re-framed as serial DLT; 20 % grammar-generated ASC/logcat/generic-log lines with extreme numbers and non-UTF-8; 10 % prefixes of repository example files; plus 0-2 blind faults (bit flips, byte set, truncation, region copy/delete, splice); read through LowMarkBufReader over a scripted short-read source (numbering started at 0, in one run of twelve at u32::MAX-k) and pushed through iterate -> header/payload text -> re-serialise -> statistics -> lifecycle detection -> listing -> time sort -> filter bank -> all built-in plugins + anonymiser + file transfer; non-trivial = at least one fault; distinct = hash of the image"
    }
    fn assumptions() -> Vec<&'static str> {
        vec![
            "only crashes count: panics (incl. arithmetic overflow, the build has overflow checks on), aborts/signals (worker exit status), step-bound overruns single allocations above max(64 x input + 16 MiB) that are not one of the implementation's constant reservations (learned per worker on a benign input), and requests of >= 1 MiB that add up to more than (benign baseline + 64 x input + 64 MiB) within one run",
            "BLF input is not part of the statement and is not generated",
            "the chain runs inside one shuttle execution because the stage functions use the seam's channel type",
        ]
    }
    fn real_components() -> Vec<&'static str> {
        vec![
            "adlt::utils::get_dlt_message_iterator (DLT, serial DLT, ASC, logcat, genlog iterators)", "DltMessage::{header_as_text_to_write,payload_as_text,to_write}", "EacStats::add_msg",
            "lifecycle detection + listing", "buffer_sort_messages", "Filter::matches", "NonVerbose/SomeIp/CAN/Muniic/Rewrite/FileTransfer/Anonymize plugins",
        ]
    }
    fn stub_components() -> Vec<&'static str> {
        vec!["corpus generators and fault injector", "underlying reader (ScriptedSource)"]
    }
    fn required_reach() -> Vec<&'static str> {
        vec!["corrupt_len", "corrupt_timestamp", "corrupt_reception_time", "corrupt_type_info_or_service_id", "corrupt_length_prefix", "truncation", "splice", "bit_flips", "corpus_asc", "corpus_logcat", "corpus_genlog", "serial_framing", "messages_through_chain"]
    }
}
