//! Running a scenario inside one shuttle execution (one seed = one schedule).

use crate::fw::{classify_panic, Ctx, Violation};
use crate::rng::Rng;
use serde::{Deserialize, Serialize};
use std::sync::{Arc, Mutex};

#[derive(Clone, Debug, Serialize, Deserialize)]
pub enum SchedKind {
    Random,
    Pct(usize),
    RoundRobin,
}

#[derive(Clone, Debug, Serialize, Deserialize)]
pub struct SchedCfg {
    pub kind: SchedKind,
    pub seed: u64,
    /// simulated clock tick per Instant::now() in ns
    pub tick_ns: u64,
    /// sync_channel capacity overrides (empty = keep the code's own bounds)
    pub caps: Vec<usize>,
    pub max_steps: usize,
    /// lifecycle stage knob: regular refresh every n messages (0 = leave as set, the code's 100 000 by default)
    #[serde(default)]
    pub lc_refresh: u32,
}

impl SchedCfg {
    pub fn simple() -> SchedCfg {
        SchedCfg {
            kind: SchedKind::RoundRobin,
            seed: 0,
            tick_ns: 1000,
            caps: vec![],
            max_steps: 2_000_000,
            lc_refresh: 0,
        }
    }
    pub fn gen(rng: &mut Rng) -> SchedCfg {
        let kind = match rng.below(10) {
            0..=5 => SchedKind::Random,
            6 => SchedKind::RoundRobin,
            _ => SchedKind::Pct(rng.urange(1, 4)),
        };
        let ncaps = rng.urange(1, 5);
        let caps = (0..ncaps)
            .map(|_| match rng.below(8) {
                0 | 1 => 0,
                2 | 3 => 1,
                4 => 2,
                5 => rng.urange(3, 16),
                6 => 1024,
                _ => 1,
            })
            .collect();
        SchedCfg {
            kind,
            seed: rng.next_u64(),
            tick_ns: *rng.pick(&[1_000u64, 100_000, 1_000_000, 7_000_000, 20_000_000]),
            caps,
            max_steps: 3_000_000,
            lc_refresh: *rng.pick(&[0u32, 0, 0, 1, 2, 5, 17, 100]),
        }
    }
}

static LAST_PANIC_SLOT: Mutex<Option<String>> = Mutex::new(None);

/// run `f` inside one shuttle execution under the configured scheduler. Panics inside (adlt
/// panics, deadlocks, step bound) are turned into violations.
pub fn run<F>(cfg: &SchedCfg, ctx: &mut Ctx, f: F) -> Result<(), Violation>
where
    F: Fn() + Send + Sync + 'static,
{
    let mut config = shuttle::Config::new();
    config.stack_size = 1 << 20;
    config.max_steps = shuttle::MaxSteps::FailAfter(cfg.max_steps);
    config.failure_persistence = shuttle::FailurePersistence::None;
    config.silence_warnings = true;
    adlt_verif_seam::clock::reset(cfg.tick_ns);
    adlt_verif_seam::knobs::set_sync_channel_caps(cfg.caps.clone());
    if cfg.lc_refresh != 0 {
        adlt_verif_seam::knobs::set_lc_regular_refresh_interval(cfg.lc_refresh);
        ctx.probe("lc_regular_refresh_interval_shortened");
    }
    adlt_verif_seam::trace::reset();
    let t0 = adlt_verif_seam::clock::now_ns();
    let kind = cfg.kind.clone();
    let seed = cfg.seed;
    let r = crate::fw::catch(move || match kind {
        SchedKind::Random => {
            shuttle::Runner::new(shuttle::scheduler::RandomScheduler::new_from_seed(seed, 1), config).run(f);
        }
        SchedKind::Pct(d) => {
            shuttle::Runner::new(shuttle::scheduler::PctScheduler::new_from_seed(seed, d, 1), config).run(f);
        }
        SchedKind::RoundRobin => {
            shuttle::Runner::new(shuttle::scheduler::RoundRobinScheduler::new(1), config).run(f);
        }
    });
    ctx.sim_time((adlt_verif_seam::clock::now_ns() - t0) as u128);
    ctx.take_seam_probes();
    let (th, tn, tasks) = adlt_verif_seam::trace::get();
    if tn > 0 && tasks > 1 {
        // interleaving signature of this execution (several executions per run are combined)
        ctx.sched = Some(ctx.sched.unwrap_or(0).rotate_left(17) ^ th);
        ctx.probe_n("seam_operations", tn);
    }
    let _ = LAST_PANIC_SLOT.lock().map(|mut g| g.take());
    let _ = classify_panic;
    r.map(|_| ())
}

/// shared output slot for results computed inside the execution (std Mutex: no scheduling point)
pub type Slot<T> = Arc<Mutex<T>>;
pub fn slot<T>(v: T) -> Slot<T> {
    Arc::new(Mutex::new(v))
}
