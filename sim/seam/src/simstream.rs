//! In-memory duplex byte stream used as the websocket transport of the simulated remote
//! server. `read` on an empty pipe models the 100 ms socket read timeout: it advances the
//! simulated clock, yields to the scheduler once and, if still empty, returns `WouldBlock`.
//! `write` never yields (adlt holds evmap/RwLock guards across `write_message`).

use crate::clock;
use ::std::collections::VecDeque;
use ::std::io::{ErrorKind, Read, Write};
use ::std::sync::{Arc, Mutex};

#[derive(Default, Debug)]
struct Pipe {
    buf: VecDeque<u8>,
    closed: bool,
}

#[derive(Clone, Debug)]
pub struct SimStream {
    rx: Arc<Mutex<Pipe>>,
    tx: Arc<Mutex<Pipe>>,
    /// simulated read timeout in ns (0 = non-blocking, no yield)
    pub read_timeout_ns: u64,
    /// max bytes handed out per read call (short reads), 0 = unlimited
    pub max_read: usize,
    /// whether an empty read yields to the scheduler (server side: yes)
    pub yield_on_empty: bool,
}

pub fn duplex() -> (SimStream, SimStream) {
    let a = Arc::new(Mutex::new(Pipe::default()));
    let b = Arc::new(Mutex::new(Pipe::default()));
    (
        SimStream {
            rx: a.clone(),
            tx: b.clone(),
            read_timeout_ns: 100_000_000,
            max_read: 0,
            yield_on_empty: true,
        },
        SimStream {
            rx: b,
            tx: a,
            read_timeout_ns: 100_000_000,
            max_read: 0,
            yield_on_empty: true,
        },
    )
}

impl SimStream {
    /// close the sending direction (peer reads EOF after draining)
    pub fn close_write(&self) {
        self.tx.lock().unwrap().closed = true;
    }
    pub fn pending_rx(&self) -> usize {
        self.rx.lock().unwrap().buf.len()
    }
    fn try_read(&self, out: &mut [u8]) -> Option<usize> {
        let mut p = self.rx.lock().unwrap();
        if p.buf.is_empty() {
            if p.closed {
                return Some(0);
            }
            return None;
        }
        let mut n = ::std::cmp::min(out.len(), p.buf.len());
        if self.max_read > 0 {
            n = ::std::cmp::min(n, self.max_read);
        }
        for o in out.iter_mut().take(n) {
            *o = p.buf.pop_front().unwrap();
        }
        Some(n)
    }
}

impl Read for SimStream {
    fn read(&mut self, out: &mut [u8]) -> ::std::io::Result<usize> {
        if out.is_empty() {
            return Ok(0);
        }
        if let Some(n) = self.try_read(out) {
            return Ok(n);
        }
        if self.yield_on_empty {
            crate::trace::op(13);
            clock::advance(self.read_timeout_ns);
            shuttle::thread::yield_now();
            if let Some(n) = self.try_read(out) {
                return Ok(n);
            }
        }
        Err(::std::io::Error::new(ErrorKind::WouldBlock, "sim read timeout"))
    }
}

impl Write for SimStream {
    fn write(&mut self, data: &[u8]) -> ::std::io::Result<usize> {
        let mut p = self.tx.lock().unwrap();
        if p.closed {
            return Err(::std::io::Error::new(ErrorKind::BrokenPipe, "sim closed"));
        }
        p.buf.extend(data.iter());
        Ok(data.len())
    }
    fn flush(&mut self) -> ::std::io::Result<()> {
        Ok(())
    }
}
