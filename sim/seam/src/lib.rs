//! adlt_verif_seam: the seams the deterministic simulation owns.
//!
//! `std` below is a facade over the real `std` in which thread creation/sleep/join,
//! mpsc channels and `time::Instant` are routed to the shuttle scheduler and a simulated
//! clock. adlt source files opt in with `#[cfg(adlt_verif)] use adlt_verif_seam::std;`.

pub mod clock {
    use ::std::sync::atomic::{AtomicU64, Ordering};
    static NOW_NS: AtomicU64 = AtomicU64::new(0);
    static TICK_NS: AtomicU64 = AtomicU64::new(1_000);
    /// reset the simulated clock (per run)
    pub fn reset(tick_ns: u64) {
        NOW_NS.store(1_000_000_000, Ordering::SeqCst);
        TICK_NS.store(tick_ns, Ordering::SeqCst);
    }
    pub fn now_ns() -> u64 {
        NOW_NS.load(Ordering::SeqCst)
    }
    pub fn advance(ns: u64) {
        NOW_NS.fetch_add(ns, Ordering::SeqCst);
    }
    /// a clock reading: returns the current value and advances by the per-run tick
    pub fn read() -> u64 {
        NOW_NS.fetch_add(TICK_NS.load(Ordering::SeqCst), Ordering::SeqCst)
    }
}

pub mod probes {
    use ::std::sync::atomic::{AtomicU64, Ordering};
    pub const TRY_SEND_FULL: usize = 0;
    pub const SEND_DISCONNECTED: usize = 1;
    pub const RECV_TIMEOUT_TIMEOUT: usize = 2;
    pub const RECV_TIMEOUT_LATE_HIT: usize = 3;
    pub const SLEEP: usize = 4;
    pub const SPAWN: usize = 5;
    pub const SYNC_CHANNEL: usize = 6;
    pub const CHANNEL: usize = 7;
    pub const INSTANT_NOW: usize = 8;
    pub const BLOCKING_SEND: usize = 9;
    pub const TRY_SEND_OK: usize = 10;
    pub const N: usize = 11;
    pub const NAMES: [&str; N] = [
        "try_send_full",
        "send_disconnected",
        "recv_timeout_timeout",
        "recv_timeout_late_hit",
        "sleep",
        "spawn",
        "sync_channel",
        "channel",
        "instant_now",
        "blocking_send",
        "try_send_ok",
    ];
    static C: [AtomicU64; N] = [const { AtomicU64::new(0) }; N];
    pub fn hit(i: usize) {
        C[i].fetch_add(1, Ordering::Relaxed);
    }
    pub fn reset() {
        for c in C.iter() {
            c.store(0, Ordering::Relaxed);
        }
    }
    pub fn snapshot() -> [u64; N] {
        let mut r = [0u64; N];
        for (i, c) in C.iter().enumerate() {
            r[i] = c.load(Ordering::Relaxed);
        }
        r
    }
}

/// rolling hash over (task, seam operation, outcome): identifies the interleaving a run took
pub mod trace {
    use ::std::sync::atomic::{AtomicU64, Ordering};
    static H: AtomicU64 = AtomicU64::new(0xcbf2_9ce4_8422_2325);
    static N: AtomicU64 = AtomicU64::new(0);
    static TASKS: AtomicU64 = AtomicU64::new(0);
    pub fn reset() {
        TASKS.store(0, Ordering::Relaxed);
        H.store(0xcbf2_9ce4_8422_2325, Ordering::Relaxed);
        N.store(0, Ordering::Relaxed);
    }
    #[inline]
    pub fn op(kind: u8) {
        let t = shuttle::current::get_current_task().map(usize::from).unwrap_or(0xff) as u64;
        let h = H.load(Ordering::Relaxed);
        H.store((h ^ ((t << 8) | kind as u64)).wrapping_mul(0x0000_0100_0000_01B3), Ordering::Relaxed);
        N.fetch_add(1, Ordering::Relaxed);
        TASKS.fetch_or(1u64 << (t & 63), Ordering::Relaxed);
    }
    /// (hash, number of seam operations, number of distinct tasks that performed one)
    pub fn get() -> (u64, u64, u32) {
        (H.load(Ordering::Relaxed), N.load(Ordering::Relaxed), TASKS.load(Ordering::Relaxed).count_ones())
    }
}

pub mod knobs {
    use ::std::sync::atomic::{AtomicU32, AtomicUsize, Ordering};
    static LC_REFRESH: AtomicU32 = AtomicU32::new(100_000);
    /// lifecycle stage: number of messages after which marked lifecycles are re-published
    /// (100 000 in the shipped code; a per-run knob so that the regular refresh path runs with small traces)
    pub fn lc_regular_refresh_interval() -> u32 {
        LC_REFRESH.load(Ordering::SeqCst)
    }
    pub fn set_lc_regular_refresh_interval(n: u32) {
        LC_REFRESH.store(if n == 0 { 100_000 } else { n }, Ordering::SeqCst);
    }
    use ::std::sync::Mutex;
    static CAPS: Mutex<Vec<usize>> = Mutex::new(Vec::new());
    static NEXT: AtomicUsize = AtomicUsize::new(0);
    /// per-run override of `sync_channel` bounds: the n-th created sync_channel gets
    /// `min(requested, caps[n % len])`; an empty list means no override
    pub fn set_sync_channel_caps(caps: Vec<usize>) {
        *CAPS.lock().unwrap() = caps;
        NEXT.store(0, Ordering::SeqCst);
    }
    pub fn next_cap(requested: usize) -> usize {
        let caps = CAPS.lock().unwrap();
        if caps.is_empty() {
            requested
        } else {
            let n = NEXT.fetch_add(1, Ordering::SeqCst);
            ::std::cmp::min(requested, caps[n % caps.len()])
        }
    }
}

pub mod simstream;

#[allow(clippy::module_inception)]
pub mod std {
    pub use ::std::{
        alloc, any, array, ascii, borrow, boxed, cell, char, clone, cmp, collections, convert,
        default, env, error, f32, f64, ffi, fmt, fs, future, hash, hint, i128, i16, i32, i64, i8,
        io, isize, iter, marker, mem, net, num, ops, option, os, panic, path, pin, prelude,
        primitive, process, ptr, rc, result, slice, str, string, task, u128, u16, u32, u64, u8,
        usize, vec,
    };
    pub mod thread {
        use crate::{clock, probes};
        pub use shuttle::thread::{current, park, scope, yield_now, Builder, Scope, ScopedJoinHandle, Thread, ThreadId};
        pub use ::std::thread::Result;
        use ::std::sync::atomic::{AtomicBool, Ordering};
        use ::std::sync::Arc;

        /// shuttle's JoinHandle plus `is_finished` (std has it, shuttle does not)
        #[derive(Debug)]
        pub struct JoinHandle<T> {
            inner: shuttle::thread::JoinHandle<T>,
            done: Arc<AtomicBool>,
        }
        impl<T> JoinHandle<T> {
            pub fn join(self) -> Result<T> {
                self.inner.join()
            }
            pub fn is_finished(&self) -> bool {
                self.done.load(Ordering::SeqCst)
            }
            pub fn thread(&self) -> &Thread {
                self.inner.thread()
            }
        }
        struct DoneGuard(Arc<AtomicBool>);
        impl Drop for DoneGuard {
            fn drop(&mut self) {
                self.0.store(true, Ordering::SeqCst);
            }
        }

        pub fn spawn<F, T>(f: F) -> JoinHandle<T>
        where
            F: FnOnce() -> T + Send + 'static,
            T: Send + 'static,
        {
            probes::hit(probes::SPAWN);
            crate::trace::op(1);
            let done = Arc::new(AtomicBool::new(false));
            let guard = DoneGuard(done.clone());
            let inner = shuttle::thread::spawn(move || {
                let _g = guard;
                f()
            });
            JoinHandle { inner, done }
        }

        /// advance the simulated clock and hand control to the scheduler. A real sleep is a
        /// request to let others run, so durations > 0 are yields (a polling loop must not starve
        /// the threads it waits for under priority schedulers); sleep(0) is a plain switch point.
        pub fn sleep(dur: ::std::time::Duration) {
            probes::hit(probes::SLEEP);
            crate::trace::op(2);
            clock::advance(dur.as_nanos() as u64);
            if dur.is_zero() {
                shuttle::thread::sleep(dur);
            } else {
                shuttle::thread::yield_now();
            }
        }
    }

    pub mod time {
        use crate::{clock, probes};
        pub use ::std::time::{Duration, SystemTime, SystemTimeError, UNIX_EPOCH};
        use ::std::ops::{Add, AddAssign, Sub, SubAssign};

        /// simulated monotonic clock reading
        #[derive(Copy, Clone, Debug, PartialEq, Eq, PartialOrd, Ord, Hash)]
        pub struct Instant(u64);

        impl Instant {
            pub fn now() -> Instant {
                probes::hit(probes::INSTANT_NOW);
                Instant(clock::read())
            }
            pub fn duration_since(&self, earlier: Instant) -> Duration {
                Duration::from_nanos(self.0.saturating_sub(earlier.0))
            }
            pub fn checked_duration_since(&self, earlier: Instant) -> Option<Duration> {
                self.0.checked_sub(earlier.0).map(Duration::from_nanos)
            }
            pub fn saturating_duration_since(&self, earlier: Instant) -> Duration {
                Duration::from_nanos(self.0.saturating_sub(earlier.0))
            }
            pub fn elapsed(&self) -> Duration {
                Instant::now().duration_since(*self)
            }
            pub fn checked_add(&self, d: Duration) -> Option<Instant> {
                self.0.checked_add(d.as_nanos() as u64).map(Instant)
            }
            pub fn checked_sub(&self, d: Duration) -> Option<Instant> {
                self.0.checked_sub(d.as_nanos() as u64).map(Instant)
            }
        }
        impl Add<Duration> for Instant {
            type Output = Instant;
            fn add(self, d: Duration) -> Instant {
                Instant(self.0 + d.as_nanos() as u64)
            }
        }
        impl AddAssign<Duration> for Instant {
            fn add_assign(&mut self, d: Duration) {
                self.0 += d.as_nanos() as u64;
            }
        }
        impl Sub<Duration> for Instant {
            type Output = Instant;
            fn sub(self, d: Duration) -> Instant {
                Instant(self.0 - d.as_nanos() as u64)
            }
        }
        impl SubAssign<Duration> for Instant {
            fn sub_assign(&mut self, d: Duration) {
                self.0 -= d.as_nanos() as u64;
            }
        }
        impl Sub<Instant> for Instant {
            type Output = Duration;
            fn sub(self, o: Instant) -> Duration {
                self.duration_since(o)
            }
        }
    }

    pub mod sync {
        pub use ::std::sync::{
            atomic, Arc, Barrier, Condvar, LazyLock, LockResult, Mutex, MutexGuard, Once, OnceLock,
            PoisonError, RwLock, RwLockReadGuard, RwLockWriteGuard, TryLockError, TryLockResult,
            Weak,
        };

        pub mod mpsc {
            use crate::{clock, knobs, probes};
            use shuttle::sync::mpsc as sh;
            pub use ::std::sync::mpsc::{
                RecvError, RecvTimeoutError, SendError, TryRecvError, TrySendError,
            };
            use ::std::time::Duration;

            pub use sh::Sender;

            pub fn channel<T>() -> (Sender<T>, Receiver<T>) {
                probes::hit(probes::CHANNEL);
                let (tx, rx) = sh::channel();
                (tx, Receiver { inner: rx })
            }

            pub fn sync_channel<T>(bound: usize) -> (SyncSender<T>, Receiver<T>) {
                probes::hit(probes::SYNC_CHANNEL);
                let (tx, rx) = sh::sync_channel(knobs::next_cap(bound));
                (SyncSender { inner: tx }, Receiver { inner: rx })
            }

            #[derive(Debug)]
            pub struct SyncSender<T> {
                inner: sh::SyncSender<T>,
            }
            impl<T> Clone for SyncSender<T> {
                fn clone(&self) -> Self {
                    SyncSender {
                        inner: self.inner.clone(),
                    }
                }
            }
            impl<T> SyncSender<T> {
                pub fn send(&self, t: T) -> Result<(), SendError<T>> {
                    probes::hit(probes::BLOCKING_SEND);
                    let r = self.inner.send(t);
                    crate::trace::op(if r.is_ok() { 3 } else { 4 });
                    if r.is_err() {
                        probes::hit(probes::SEND_DISCONNECTED);
                    }
                    r
                }
                pub fn try_send(&self, t: T) -> Result<(), TrySendError<T>> {
                    let r = self.inner.try_send(t);
                    crate::trace::op(match &r {
                        Ok(_) => 5,
                        Err(TrySendError::Full(_)) => 6,
                        Err(TrySendError::Disconnected(_)) => 7,
                    });
                    match &r {
                        Ok(_) => probes::hit(probes::TRY_SEND_OK),
                        Err(TrySendError::Full(_)) => probes::hit(probes::TRY_SEND_FULL),
                        Err(TrySendError::Disconnected(_)) => {
                            probes::hit(probes::SEND_DISCONNECTED)
                        }
                    }
                    r
                }
            }

            #[derive(Debug)]
            pub struct Receiver<T> {
                inner: sh::Receiver<T>,
            }
            impl<T> Receiver<T> {
                pub fn recv(&self) -> Result<T, RecvError> {
                    let r = self.inner.recv();
                    crate::trace::op(if r.is_ok() { 8 } else { 9 });
                    r
                }
                pub fn try_recv(&self) -> Result<T, TryRecvError> {
                    let r = self.inner.try_recv();
                    crate::trace::op(match &r {
                        Ok(_) => 10,
                        Err(TryRecvError::Empty) => 11,
                        Err(TryRecvError::Disconnected) => 12,
                    });
                    r
                }
                /// honest timeout: look, let the scheduler decide whether a producer runs while
                /// the simulated timeout elapses, look again.
                pub fn recv_timeout(&self, timeout: Duration) -> Result<T, RecvTimeoutError> {
                    match self.inner.try_recv() {
                        Ok(t) => Ok(t),
                        Err(TryRecvError::Disconnected) => Err(RecvTimeoutError::Disconnected),
                        Err(TryRecvError::Empty) => {
                            clock::advance(timeout.as_nanos() as u64);
                            shuttle::thread::yield_now();
                            match self.inner.try_recv() {
                                Ok(t) => {
                                    probes::hit(probes::RECV_TIMEOUT_LATE_HIT);
                                    Ok(t)
                                }
                                Err(TryRecvError::Disconnected) => {
                                    Err(RecvTimeoutError::Disconnected)
                                }
                                Err(TryRecvError::Empty) => {
                                    probes::hit(probes::RECV_TIMEOUT_TIMEOUT);
                                    Err(RecvTimeoutError::Timeout)
                                }
                            }
                        }
                    }
                }
                pub fn iter(&self) -> Iter<'_, T> {
                    Iter { rx: self }
                }
                pub fn try_iter(&self) -> TryIter<'_, T> {
                    TryIter { rx: self }
                }
            }
            #[derive(Debug)]
            pub struct Iter<'a, T: 'a> {
                rx: &'a Receiver<T>,
            }
            #[derive(Debug)]
            pub struct TryIter<'a, T: 'a> {
                rx: &'a Receiver<T>,
            }
            #[derive(Debug)]
            pub struct IntoIter<T> {
                rx: Receiver<T>,
            }
            impl<T> Iterator for Iter<'_, T> {
                type Item = T;
                fn next(&mut self) -> Option<T> {
                    self.rx.recv().ok()
                }
            }
            impl<T> Iterator for TryIter<'_, T> {
                type Item = T;
                fn next(&mut self) -> Option<T> {
                    self.rx.try_recv().ok()
                }
            }
            impl<T> Iterator for IntoIter<T> {
                type Item = T;
                fn next(&mut self) -> Option<T> {
                    self.rx.recv().ok()
                }
            }
            impl<'a, T> IntoIterator for &'a Receiver<T> {
                type Item = T;
                type IntoIter = Iter<'a, T>;
                fn into_iter(self) -> Iter<'a, T> {
                    self.iter()
                }
            }
            impl<T> IntoIterator for Receiver<T> {
                type Item = T;
                type IntoIter = IntoIter<T>;
                fn into_iter(self) -> IntoIter<T> {
                    IntoIter { rx: self }
                }
            }
        }
    }
}
