#!/bin/bash
# usage: run_seeded.sh <seeded-name> <check-id>... ; applies the seeded change to /repo, runs the quick checks, reverts
name=$1; shift
cd /verif
if ! git -C /repo diff --quiet; then echo "refusing: /repo has uncommitted changes"; exit 2; fi
git -C /repo apply --ignore-whitespace /verif/seeded/$name/patch.diff || { echo "patch does not apply"; exit 2; }
mkdir -p /verif/sim/target/seeded_replays
res=/verif/seeded/$name/result.txt
: > $res
for c in "$@"; do
  out=$(VERIF_NO_EVIDENCE=1 VERIF_WORKER_MAX_VIOL=${VERIF_WORKER_MAX_VIOL:-2} ./check $c ${TIER:-quick} 2>&1)
  echo "$out" | grep -E "^(VIOLATION|KNOWN-FINDING|HARNESS-ERROR|C[0-9]+ )" | sed "s/^/[$c] /" | tee -a $res
done
git -C /repo checkout -- .
# replays of seeded runs are not findings on the real tree: keep them out of /verif/replays
for f in $(grep -o "replay=[^ ]*" $res | cut -d= -f2); do [ -f "$f" ] && mv "$f" /verif/sim/target/seeded_replays/ ; done
if grep -q "VIOLATION" $res; then echo "CAUGHT $name"; else echo "MISSED $name"; fi
