#!/bin/bash
# usage: verify_mutant.sh <worktree> ; confirms a seeded change: builds, existing tests pass, demo fails with / passes without
# writes <worktree>/out/verify.log and prints a one-line verdict
WT=$1
cd "$WT" || exit 2
export CARGO_NET_OFFLINE=true
LOG=$WT/out/verify.log
: > "$LOG"
DEMO_CMD=$(python3 -c "import json;print(json.load(open('$WT/out/meta.json'))['demo_cmd'])")
git checkout -q -- . ; git clean -qfd -e out -e target tests src >/dev/null 2>&1
git checkout -q --detach main 2>>"$LOG" || { echo "checkout failed"; exit 2; }
git apply out/patch.diff 2>>"$LOG" || { echo "VERDICT $WT patch does not apply on main"; exit 1; }
if [ -s out/demo.diff ]; then git apply out/demo.diff 2>>"$LOG" || { echo "VERDICT $WT demo does not apply"; exit 1; }; fi
echo "== lib tests with patch" >> "$LOG"
cargo test --offline -j 8 --lib >> "$LOG" 2>&1; LIB=$?
if [ $LIB -ne 0 ]; then echo "== lib tests rerun (flaky export tests share a file name)" >> "$LOG"; cargo test --offline -j 8 --lib -- --test-threads 4 >> "$LOG" 2>&1; LIB=$?; fi
echo "== bin tests with patch" >> "$LOG"
cargo test --offline -j 8 --bins >> "$LOG" 2>&1; BINS=$?
echo "== integration (convert only) with patch" >> "$LOG"
cargo test --offline -j 8 --test integration_bin bin_convert >> "$LOG" 2>&1; INTEG=$?
echo "== demo with patch: $DEMO_CMD" >> "$LOG"
bash -c "$DEMO_CMD" >> "$LOG" 2>&1; DEMO_WITH=$?
git apply -R out/patch.diff 2>>"$LOG" || { echo "VERDICT $WT cannot reverse patch"; exit 1; }
echo "== demo without patch" >> "$LOG"
bash -c "$DEMO_CMD" >> "$LOG" 2>&1; DEMO_WITHOUT=$?
git apply out/patch.diff 2>>"$LOG"
echo "VERDICT $WT lib=$LIB bins=$BINS integ=$INTEG demo_with_patch=$DEMO_WITH(expect !=0) demo_without_patch=$DEMO_WITHOUT(expect 0)" | tee -a "$LOG"
