#!/usr/bin/env python3
"""Regenerates the generated tables of DESIGN.md (between <!-- BEGIN:x --> / <!-- END:x --> markers)
from known_findings.json, /repo's history and seeded/SUMMARY.md. Run by hand."""
import json, re, subprocess
D = "/verif/DESIGN.md"
s = open(D).read()
kf = json.load(open("/verif/known_findings.json"))
rows = ["| id | property | status | what |", "|---|---|---|---|"]
for e in kf:
    st = "fixed `%s`" % e["commit"][:10] if e["status"] == "fixed" else "open"
    rows.append("| %s | %s | %s | %s |" % (e["id"], e["property"], st, e["what"].replace("|", "\\|")))
findings = "\n".join(rows)
log = subprocess.check_output(["git", "-C", "/repo", "log", "--reverse", "--format=%h %s"], text=True).splitlines()
fixes = "\n".join("- `%s` %s" % tuple(l.split(" ", 1)) for l in log if l.split(" ", 1)[1].startswith("fix:"))
hooks = "\n".join("- `%s` %s" % tuple(l.split(" ", 1)) for l in log if l.split(" ", 1)[1].startswith("verif hook"))
seeded = open("/verif/seeded/SUMMARY.md").read().strip()
def put(name, body):
    global s
    pat = re.compile(r"(<!-- BEGIN:%s -->\n).*?(\n<!-- END:%s -->)" % (name, name), re.S)
    assert pat.search(s), name
    s = pat.sub(lambda m: m.group(1) + body + m.group(2), s)
put("findings", findings)
put("fixes", fixes)
put("hooks", hooks)
put("seeded", seeded)
open(D, "w").write(s)
print("DESIGN.md tables regenerated:", len(kf), "findings,", fixes.count("\n") + 1, "fix commits")
