#!/usr/bin/env python3
"""Generates /verif/MANIFEST.json from the table below (kept in one place so it stays valid)."""
import json, subprocess

CHECKS = {
    # id: (engine, category, technique, level text, level note, design_ref)
    "C01": ("streamsim", "exploration",
            "deterministic simulation: seeded producer/medium/scripted-reader runs against ground truth",
            "Seeded search over generated streams (all header-flag combinations, both byte orders and framings, payload classes up to the maximum, marker-free noise runs incl. runs longer than the reader's low mark) read through the real iterator on a slice, a Cursor and LowMarkBufReader over a scripted short-read source; every message compared field by field with the generator's ground truth, counters checked against the noise bookkeeping. Sampling, not proof.",
            "Trusts the independent encoder in gen_dlt.rs as the definition of the wire format; I/O errors of the source are not injected (outside the quantifier).",
            "DESIGN.md §6 C01"),
    "C02": ("streamsim", "exploration",
            "deterministic simulation: scripted short-write/EINTR sinks and short-read sources around the real writer and parser",
            "Seeded search: every message parsed from a generated well-formed stream is written through a scripted sink (short writes, EINTR before any byte), re-parsed, compared on the promised fields and re-written (normal form); the whole export is re-read through LowMarkBufReader over a scripted short-read source and exported again (byte-identical). Sampling, not proof.",
            "Fields the statement does not promise are not compared; the end-to-end `convert -o` path belongs to C14.",
            "DESIGN.md §6 C02"),
    "C04": ("streamsim", "exploration",
            "deterministic simulation: scripted read schedules (incl. adversarial buffer-edge schedule) and model-based operation histories on the buffering reader",
            "Seeded search over (i) byte images with embedded/foreign markers, corrupted, truncated and near-maximum messages, parsed from the whole slice (reference) and through LowMarkBufReader geometries x read schedules down to 1 byte and an adversarial schedule that stops 0..7 bytes after each message, plus suffix runs; (ii) random fill/consume/read/seek histories on LowMarkBufReader against a position model (exact bytes, low-mark look-ahead until EOF, no early EOF). Sampling, not proof.",
            "The whole-slice parse is the reference; I/O errors are outside the quantifier; a refused seek is fine, wrong bytes after an accepted seek are a violation.",
            "DESIGN.md §6 C04"),
    "C20": ("streamsim", "exploration",
            "deterministic simulation: model-based read/seek histories over scripted short-read volumes; sandboxed extraction with canary surroundings",
            "Seeded search over (i) splits of a byte string into 1-6 volumes (empty ones included), each behind a scripted short-read source, driven by random read/seek histories and compared after every operation with std::io::Cursor over the concatenation (data, positions, error/ok of every seek); (ii) generated zip archives (nested dirs, hostile '..'/absolute names, odd characters, empty members; single file or multi-volume on disk) extracted through the real extract_archives() with generated glob patterns into a temp dir inside a sandbox whose parent, siblings and pre-existing neighbour files are scanned afterwards. Sampling, not proof.",
            "Cursor is the reference for 'a single file'; the glob crate decides pattern matching; cancellation is injected before extraction starts and, through an in-memory archive source that raises the flag after k permille of the bytes have been read, while a member is being copied (then the same request is repeated); member names that denote a directory ('x/..') are outside the input space.",
            "DESIGN.md §6 C20"),
    "C05": ("worldsim", "exploration",
            "deterministic simulation: discrete-event world (ECUs, transport, recorder) with fault injection feeding the real lifecycle stage",
            "Seeded search over simulated worlds (1-4 ECUs, reboots at arbitrary instants, suspend/resume, constant/jittered/late-connect/spiking transport delays up to > 60 s, drops, duplicates, reorders, timestamp corruption, recorder clock jumps and coarse clock, injected control requests, ECU without timestamps; swarm subsets per run), optionally in two batches with the returned write handle (pre-populated table). Output compared position by position with the input; every lifecycle id looked up in the final table. Sampling, not proof.",
            "The world model is ours; reception times stay above 120 s after the epoch (smaller ones are C03's arithmetic-overflow territory); lifecycle ids are never assumed, the global id counter is aligned per run so evmap iteration order is process-independent.",
            "DESIGN.md §6 C05"),
    "C07": ("worldsim", "exploration",
            "deterministic simulation: discrete-event world biased to confirm-then-merge and crossing resume shapes feeding the real lifecycle stage and listing",
            "Seeded search over worlds as in C05, half of them biased to several ECUs x several short boots x delay spikes x suspend/resume (the shapes that confirm a lifecycle and merge it afterwards or produce resume lifecycles whose start estimates cross). After the stage returns: histogram of delivered lifecycle ids vs published table (phantoms, counts, sum, merged entries) and the user-visible listing (can be produced, permutation, resume after origin via hook H3, start order without resumes). Sampling, not proof.",
            "Resume origin read through the cfg-guarded accessor H3; world model is ours.",
            "DESIGN.md §6 C07"),
    "C08": ("worldsim", "exploration",
            "deterministic simulation: ground-truth world restricted to the statement's clean class, detector output compared with ground truth",
            "Seeded search over worlds of the literal class of the statement (sequential boots with off time >= 1 ms, one constant delay per boot 0-90 s, arbitrary in-boot stream order, 1-2 message boots, first timestamp 0, optional > 10 s gap, 1-4 ECUs interleaved arbitrarily); partition, start, end and count per boot compared exactly with the ground truth. One open finding family (late-connect overlap) is recognised structurally on the ground truth and reported as KNOWN-FINDING; any deviation involving a boot outside such an overlap is a violation. Sampling, not proof.",
            "The generator is the encoding of the class and is re-checked on the concrete world before judging; the finding predicate is evaluated on ground truth, never on the detector's output.",
            "DESIGN.md §6 C08"),
    "C06": ("pipesim", "exploration",
            "deterministic simulation: real lifecycle stage between producer/consumer/poller threads under a seeded shuttle scheduler with channel-capacity and pacing knobs",
            "Seeded search over schedules (shuttle random / PCT depth 1-4 / round robin, one schedule per run) x channel capacities (0, 1, 2, small, 1024) x producer/consumer pacing x simulated worlds (as C05). The shared lifecycle table is looked up at every delivery point inside the stage's thread, on receipt in the consumer thread and by a third polling thread that must never miss the lifecycle of an already delivered message. Sampling, not proof.",
            "shuttle runs one thread at a time with sequentially consistent memory: weak-memory effects and evmap's internal concurrency are not explored; harness readers never hold an evmap guard across a scheduling point.",
            "DESIGN.md §6 C06"),
    "C13": ("pipesim", "exploration",
            "deterministic simulation: pipelines of the real stage functions as shuttle threads over bounded channels vs. sequential unbounded reference; consumer-disappears fault",
            "Seeded search over schedules x channel capacities (0/1/2/3-16/1024 per channel) x producer bursts/stalls x consumer stalls x early consumer drop, over pipelines assembled like convert.rs from lifecycle, plugins (FileTransfer, Rewrite), sort and filter stages, each sending with the blocking-send helper. Delivered sequence and final lifecycle table compared with the same stages run sequentially over unbounded channels (ids renamed by first appearance; multiset only when sorted); on consumer drop every thread must terminate (deadlock / step-bound overrun = violation), nothing delivered twice, delivered prefix equals the reference. Sampling, not proof.",
            "Same scheduler assumptions as C06; the reference run is real code too (same process, simple schedule).",
            "DESIGN.md §6 C13"),
    "C09": ("streamsim", "exploration",
            "deterministic simulation: recordings of simulated recorders pulled lazily through scripted short-read readers into the real merge iterators",
            "Seeded search over families of 0-6 sources (increasing, tied, unordered, empty recordings from simulated recorder clocks) merged by all four constructors with start indices incl. near u32::MAX; two thirds of the sources are real DltMessageIterators over LowMarkBufReader over a scripted short-read source, so the merge pulls lazily from stream seams. Every output message is attributed to (source, position): exactly once, per-source order, numbering, global order when all sources are ordered, concatenation for the chain. Sampling, not proof. Weakest fit of the claimed properties (see DESIGN.md).",
            "For the *_or_single_it single-source shortcut the documented 'start index ignored' behaviour is the expectation.",
            "DESIGN.md §6 C09"),
    "C10": ("worldsim", "exploration",
            "deterministic simulation: simulated worlds and bounded-delay traces through the real sort stage with real, stale and empty lifecycle tables",
            "Seeded search, two kinds of runs: (perm) simulated worlds through the real lifecycle stage and the real sorter with the real table, a shifted/partial stale table or an empty table over windows {1,2,3,10,255} s x minimum delays {0,1 ms,2 s,20 s,1500 s,u64::MAX-10,u64::MAX}: output must be a permutation, every message unchanged; (order) generated multi-ECU/multi-lifecycle traces with non-decreasing reception times (ties included) and per-message buffering delay within the minimum (a fifth of the cases with minima beyond the sorter's 1000 s start-up allowance up to u64::MAX and a recording that starts up to 5000 s after the lifecycles; at the bound, 'negative'/capped, control requests): output ordered by (calculated time, original position); the precondition is re-checked on the concrete case. Sampling, not proof.",
            "Calculated time as the statement defines it, lifecycle starts taken from the table handed to the sorter.",
            "DESIGN.md §6 C10"),
    "C12": ("pipesim", "exploration",
            "deterministic simulation: filter stage as a shuttle thread between bounded channels (capacity/pacing/consumer-drop knobs) plus the set matcher, against the combination rule over real per-filter verdicts",
            "Seeded search over filter sets (0-6 filters of every kind, enabled or not, negated or not, overlapping criteria) x simulated message streams x schedules/capacities/consumer pacing/consumer drop. Forwarded sequence, order and the kept/dropped counters of the real stream filter stage and the verdicts of the real set matcher (on the set StreamContext::from builds), the server's incremental stream index as a stream and as a one-time query with a window reached in a later hand-over and enlarged afterwards, and the export plugin's file are compared with the stated rule applied to the real per-filter verdicts. Sampling, not proof.",
            "Per-filter semantics (C11) are taken from the real Filter::matches and not decided here.",
            "DESIGN.md §6 C12"),
    "C17": ("protosim", "fault_enumeration",
            "deterministic simulation with enumerated fault injection: file-transfer senders over a lossy interleaving transport into the real plugin, sandboxed disk",
            "For every generated transfer configuration (sizes around package boundaries, package sizes 1..4096 and = file, 1-3 concurrent transfers - a later one in four with exactly the first one's announcement from another ECU or lifecycle -, both byte orders, names with directory parts, interleaving with unrelated traffic, auto-save directory pre-seeded) EVERY single fault on the first transfer is enumerated: drop/duplicate (adjacent, delayed)/swap/resize of each package, drop announcement, drop end marker. Oracle: completeness exactly as stated, bit-exact content through the plugin's save command and auto-save, never complete/saved when damaged, no overwrite, nothing outside the configured directory (canary parent scanned). Configurations are sampled, faults per configuration are enumerated.",
            "With the announcement dropped only the safety half is demanded; announcement always truthful; completion read from the plugin's published state.",
            "DESIGN.md §6 C17"),
    "C18": ("streamsim", "fault_enumeration",
            "deterministic simulation with enumerated stored-data faults: library encoders -> frame -> real writer/parser -> argument decoder and text rendering under every truncation point and single-field corruption",
            "For every generated typed value sequence (all supported types and widths, extreme values, NaN/inf/-0, empty/long strings with control and non-UTF-8 bytes, raw data; both byte orders through payload_from_args, host order through the serde serializer) the fault-free configuration checks count, types, raw values and the canonical text (independent formatter), then EVERY truncation point (all up to 4 KiB, every 97th beyond) and every single-field corruption (11 type-info words, 5 length prefixes per field, 4 noar values) is decoded: intact prefix, stop at structurally invalid fields, slices inside the payload, no panic. Value sequences are sampled; faults per sequence are enumerated.",
            "Second-weakest fit (pure codec in the fault-free half); corruptions that yield another well-formed list only have to keep the preceding arguments intact.",
            "DESIGN.md §6 C18"),
    "C19": ("pipesim", "exploration",
            "deterministic simulation: plugin-shaped simulated traffic through the real plugin stage as a shuttle thread between bounded channels; anonymiser + lifecycle detection on both traces",
            "Seeded search over (plugins) simulated traffic where half of the messages are shaped to hit the decoders (FIBEX non-verbose frames incl. unknown ids and short payloads, SOME/IP and CAN traces with known/unknown ids and truncated headers, Muniic MMSG/MDLT, rewrite targets) x every non-empty subset and order of {non-verbose, SOME/IP, CAN, Muniic, rewrite, file transfer with keepFLDA} configured from the repository's descriptions x schedules/capacities: length, order, index, reception time, ECU, payload bytes, lifecycle, counter untouched; only text, a missing extended header and (rewrite) the timestamp may change; (anon) id populations of 1-999 ECUs/APIDs/CTIDs: pseudonym maps functional and injective per scope, times untouched, lifecycle partition/starts/ends/counts identical on both traces. Sampling, not proof.",
            "Plugins configured from /repo/tests; export plugin and file-transfer package dropping are the stated exceptions and not part of the set.",
            "DESIGN.md §6 C19"),
    "C03": ("worldsim", "exploration",
            "deterministic simulation with stored-data fault injection: simulated traces / grammar text / example files under field-targeted and blind corruption through the whole ingestion+analysis chain in crash-isolated workers with an accounting allocator",
            "Seeded search over input images: 70 % simulated multi-ECU/multi-boot DLT traces with every message kind (structured control responses of all known services truncated at every length, file-transfer announcements with extreme sizes, plugin-shaped traces, arbitrary type-info words) under 0-3 field-targeted corruptions located by ground truth, 20 % grammar-generated ASC/logcat/generic-log lines, 10 % repository example files, plus blind flips/truncation/splices; read under scripted short reads and pushed through iterate -> text -> re-serialise -> statistics -> lifecycles -> listing -> sort -> filters -> all built-in plugins. Violations: panic (overflow checks on), abort/signal of the worker process, step-bound overrun, single allocation > max(64 x input + 16 MiB) not among the implementation's constant reservations. Sampling, not proof.",
            "Only crashes count; BLF is not part of the statement; constant reservations (10 M message queue, 1 Mi heap) are learned per worker on a benign input and whitelisted by exact size.",
            "DESIGN.md §6 C03"),
    "C14": ("pipesim", "exploration",
            "deterministic simulation: the real convert() (threads, bounded channels, file readers) inside shuttle executions on simulated input files; metamorphic + reference-predicate oracle",
            "Seeded search over option combinations (-b/-e, --lcs, --eac with literal/regex expressions, -f in DLF and dlt-convert format incl. negative/disabled filters, --sort, -a/-x/-s/none, -o) x 1-3 generated input files (chunks of one recording or one file per ECU, garbage between messages) x permutations of the file arguments x schedules with small channel bounds. Each case runs the real convert() 3-4 times (baseline, listing, selection, permuted selection); expected selection = index window AND lifecycle set AND filter rule using an abstract reference predicate; each selected message exactly once on screen and in the re-read -o file. Sampling, not proof.",
            "Lifecycle membership from an independent library pass aligned with the run through the aligned id counter and cross-checked with the run's listing; with --sort only the multiset; the permutation part only when all reception times are distinct.",
            "DESIGN.md §6 C14"),
    "C15": ("remotesim", "exploration",
            "deterministic simulation: real remote server functions behind a loop replica under a simulated websocket client, in-memory transport, simulated clock and seeded shuttle schedules; session reference model",
            "Seeded search over command histories (1-26 commands from a grammar over all twelve commands with valid bodies, each parameter missing, wrong types, malformed JSON, unknown/stale/garbage ids, before open/after close, double open, client waits) x parsing progress (channel bounds, clock tick, short socket reads, schedules). Oracle: exactly one well-formed reply per command naming that command, none unsolicited, ok/err exactly as the session model predicts (open/closed, collect mode, live stream and query ids incl. self-terminating queries judged on frame order), close always answered and a following open succeeds, server loop alive until the client closes. Sampling, not proof.",
            "TCP accept/event loop is the H2 replica; zip archives are opened in one session of twelve (utils/progress.rs is under the seam since round 5, so the extraction thread is a scheduled thread); liveness = reply within 30000 client polls.",
            "DESIGN.md §6 C15"),
    "C16": ("remotesim", "exploration",
            "deterministic simulation: library-level batching simulation of the stream bookkeeping + websocket sessions against a model of the filtered sequence under seeded schedules",
            "Seeded search, two kinds of runs: (lib) StreamContext::from + process_stream_new_msgs driven like the server loop with arbitrary arrival batchings, chunk sizes and window growth, invariant checked after every call (filtered positions == matching positions below the processed length, window bound for queries, bounded progress); (server) websocket sessions with 1-3 streams/queries (restricted filters with an independent reference predicate, windows empty/beyond the end/overlapping, binary and text; one session in 150 over a log of 8 500-20 000 messages with a late query over nearly everything), window changes, paged searches over all page sizes/start positions, index lookups: frames per announced id == model window, each once, in order, none before the announcing reply, fields and text equal to the file's, queries terminated, union of pages == matching positions, lookup == first position not before. Sampling, not proof.",
            "Server sessions open with sort in two of five cases (an unfiltered reference stream then shows the stream order); time lookups are judged only when the stream is ordered by the lookup's notion of time; 'eventually' = after the parser finished plus 300 empty client polls (plus 4 per message for logs above 1000 messages).",
            "DESIGN.md §6 C16"),
}

NOT_APPLICABLE = {
    "C11": "pure predicate over one in-memory filter and one message: no schedule, clock, stream chunking, multi-party exchange or stored fault for a simulator to own (DESIGN.md §7); its combination rule is simulated in C12 and whole selections in C14/C16",
}

PENDING_REASON = "check not built yet in this tree (planned in DESIGN.md §6); not claimed until its quick command exists"

def main():
    props = [json.loads(l)["id"] for l in open("/verif/properties.jsonl")]
    try:
        hook_commits = subprocess.check_output(
            ["git", "-C", "/repo", "log", "--format=%H %s", "--grep=^verif hook"], text=True).strip().splitlines()
    except Exception:
        hook_commits = []
    checks = []
    for pid in props:
        if pid in CHECKS:
            eng, cat, tech, text, note, ref = CHECKS[pid]
            checks.append({
                "property_id": pid,
                "quick_cmd": f"./check {pid} quick",
                "thorough_cmd": f"./check {pid} thorough",
                "evidence_file": f"/verif/evidence/{pid}.json",
                "replay_cmd_template": "./check replay {path}",
                "engine": eng,
                "level_claimed": {"category": cat, "text": text, "design_ref": ref},
                "level_note": note,
                "technique": tech,
            })
    na = []
    for pid in props:
        if pid in CHECKS:
            continue
        na.append({"property_id": pid, "reason": NOT_APPLICABLE.get(pid, PENDING_REASON)})
    man = {
        "version": 1,
        "setup_cmd": "./check setup",
        "hooks": {
            "guard": "--cfg adlt_verif",
            "enable": "checks build /repo/src through the shadow manifest /verif/sim/adlt_shadow/Cargo.toml with RUSTFLAGS --cfg adlt_verif (see /verif/sim/.cargo/config.toml); /repo's Cargo.toml only declares the cfg name for the unknown-cfg lint",
            "baseline_off_cmd": "cd /repo && cargo nextest run --workspace --no-fail-fast --tool-config-file pb:/w/lib/nextest.toml --profile pb --test-threads 8 --offline || cargo test --workspace --no-fail-fast --offline",
            "source_commits": [l.split()[0] for l in hook_commits],
            "add_only": True,
        },
        "engines": [
            {"name": "streamsim", "path": "sim/checks/src", "serves_properties": ["C01", "C02", "C04", "C09", "C18", "C20"],
             "kind_free_text": "byte streams through faulty media and scripted readers/writers (no threads)"},
            {"name": "worldsim", "path": "sim/checks/src", "serves_properties": ["C05", "C07", "C08", "C10", "C19", "C03"],
             "kind_free_text": "discrete-event simulation of ECUs, transport and recorder producing traces with ground truth"},
            {"name": "pipesim", "path": "sim/checks/src", "serves_properties": ["C06", "C12", "C13", "C14"],
             "kind_free_text": "real stage functions / real convert() as shuttle threads over bounded channels"},
            {"name": "protosim", "path": "sim/checks/src", "serves_properties": ["C17"],
             "kind_free_text": "file-transfer senders over a lossy interleaving transport, fault enumeration"},
            {"name": "remotesim", "path": "sim/checks/src", "serves_properties": ["C15", "C16"],
             "kind_free_text": "remote server loop under a simulated websocket client, transport and clock"},
        ],
        "checks": checks,
        "not_applicable": na,
        "notes": "All checks are driven by ./check (see DESIGN.md §3). VERIF_SEED (default 1) and VERIF_TIER are honoured. Exit 0 held / 1 VIOLATION / 2 harness error. known_findings.json lists genuine defects (open or fixed).",
    }
    json.dump(man, open("/verif/MANIFEST.json", "w"), indent=1)
    print("MANIFEST.json written:", len(checks), "checks,", len(na), "not claimed")

if __name__ == "__main__":
    main()
