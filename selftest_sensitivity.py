#!/usr/bin/env python3
"""Sensitivity self-test: applies every seeded change under /verif/seeded/<name>/patch.diff to /repo
(one at a time, reverted straight afterwards), runs the quick check(s) of the property it breaks
and requires a VIOLATION; finally requires the unchanged tree to stay silent.
Usage: selftest_sensitivity.py [names...]"""
import json, os, subprocess, sys, time
names = sys.argv[1:] or sorted(os.listdir("/verif/seeded"))
names = [n for n in names if os.path.exists(f"/verif/seeded/{n}/patch.diff")]
EXTRA = {"C05": ["C07"], "C07": ["C05"], "C08": ["C07"]}
rows = []
missed = 0
for n in names:
    meta = json.load(open(f"/verif/seeded/{n}/meta.json"))
    prop = meta["property"]
    checks = [prop] + meta.get("also_checks", [])
    t0 = time.time()
    out = subprocess.run(["/verif/run_seeded.sh", n] + checks, capture_output=True, text=True).stdout
    verdict = "CAUGHT" if "CAUGHT" in out else ("MISSED" if "MISSED" in out else "ERROR")
    classes = sorted(set(l.split("class=")[1].split()[0] for l in out.splitlines() if "VIOLATION" in l and "class=" in l))
    if verdict != "CAUGHT":
        missed += 1
    rows.append((n, prop, verdict, ", ".join(classes)[:120], round(time.time() - t0, 1)))
    print(f"{n:28s} {prop} {verdict:7s} {', '.join(classes)[:100]}", flush=True)
with open("/verif/seeded/SUMMARY.md", "w") as f:
    f.write("| seeded change | property | quick check verdict | violation classes reported |\n|---|---|---|---|\n")
    for r in rows:
        f.write(f"| {r[0]} | {r[1]} | {r[2]} | {r[3]} |\n")
print("SENSITIVITY", "OK" if missed == 0 else f"{missed} not caught")
sys.exit(0 if missed == 0 else 1)
